// Hand-derived from the postcondition of `enhance_key`'s lifted closure (`enhanced`): the key that reaches the inner recorder
// carries the metric's OWN labels unfiltered, plus the span fields the filter admits, where the metric's own label wins over
// a span field of the same name and an inner span's field wins over an outer span's.  One concrete run on the real crate.
use crate::{LabelFilter, MetricsLayer, TracingContextLayer};
use metrics::{counter, Label};
use metrics_util::debugging::DebuggingRecorder;
use metrics_util::layers::Layer as _;
use tracing::dispatcher::{set_default, Dispatch};
use tracing::{span, Level};
use tracing_subscriber::{layer::SubscriberExt, Registry};

#[derive(Clone)]
struct OnlyA;
impl LabelFilter for OnlyA {
    fn should_include_label(&self, _name: &metrics::KeyName, label: &Label) -> bool { label.key() == "a" }
}

#[test]
fn own_labels_unfiltered_own_beats_span_inner_beats_outer() {
    let subscriber = Registry::default().with(MetricsLayer::new());
    let _g = set_default(&Dispatch::new(subscriber));
    let recorder = DebuggingRecorder::new();
    let snapshotter = recorder.snapshotter();
    let recorder = TracingContextLayer::new(OnlyA).layer(recorder);
    metrics::with_local_recorder(&recorder, || {
        let outer = span!(Level::TRACE, "outer", a = 1, b = 3);
        let _o = outer.enter();
        let inner = span!(Level::TRACE, "inner", a = 2);
        let _i = inner.enter();
        counter!("m", "b" => "own", "c" => "own").increment(1);
    });
    let v = snapshotter.snapshot().into_vec();
    assert_eq!(v.len(), 1);
    let mut labels: Vec<(String, String)> = v[0].0.key().labels().map(|l| (l.key().to_owned(), l.value().to_owned())).collect();
    labels.sort();
    assert_eq!(labels, vec![("a".into(), "2".into()), ("b".into(), "own".into()), ("c".into(), "own".into())]);
}
