// Hand-derived from the contracts of the label filters and of the three register_* methods of TracingContext ("one label per
// span field ... that the label filter admits"; every metric kind is enhanced the same way): concrete runs on the real crate.
use crate::label_filter::{Allowlist, LabelFilter};
use crate::{MetricsLayer, TracingContextLayer};
use metrics::{counter, gauge, histogram, KeyName, Label};
use metrics_util::debugging::DebuggingRecorder;
use metrics_util::layers::Layer as _;
use tracing::dispatcher::{set_default, Dispatch};
use tracing::{span, Level};
use tracing_subscriber::{layer::SubscriberExt, Registry};

#[test]
fn allowlist_admits_exactly_the_listed_names_in_any_order() {
    let names = ["zeta", "alpha", "mid", "beta", "omega", "a", "zz"];
    let filter = Allowlist::new(names);
    let kn = KeyName::from("m");
    for n in names { assert!(filter.should_include_label(&kn, &Label::new(n, "v")), "listed name {n:?} must be admitted"); }
    for n in ["alph", "alphaa", "", "Z", "zzz"] { assert!(!filter.should_include_label(&kn, &Label::new(n, "v")), "unlisted name {n:?}"); }
}

#[test]
fn every_metric_kind_gets_the_span_fields() {
    let subscriber = Registry::default().with(MetricsLayer::new());
    let _g = set_default(&Dispatch::new(subscriber));
    let recorder = DebuggingRecorder::new();
    let snapshotter = recorder.snapshotter();
    let recorder = TracingContextLayer::all().layer(recorder);
    metrics::with_local_recorder(&recorder, || {
        let s = span!(Level::TRACE, "s", user = "u1");
        let _e = s.enter();
        counter!("c", "own" => "1").increment(1);
        gauge!("g", "own" => "2").set(1.0);
        histogram!("h", "own" => "3").record(1.0);
    });
    let v = snapshotter.snapshot().into_vec();
    assert_eq!(v.len(), 3);
    for (ck, _, _, _) in &v {
        let mut labels: Vec<(String, String)> = ck.key().labels().map(|l| (l.key().to_owned(), l.value().to_owned())).collect();
        labels.sort();
        let own = match ck.key().name() { "c" => "1", "g" => "2", _ => "3" };
        assert_eq!(labels, vec![("own".to_string(), own.to_string()), ("user".to_string(), "u1".to_string())], "metric {:?}", ck.key().name());
    }
}
