// Hand-derived from the contract of `MetricsLayer::on_new_span` ("fields of the current span and those its ANCESTORS had when each
// descendant was created"): ancestry is the span TREE (explicit `parent:` included), not the stack of spans entered on the
// thread.  One concrete run on the real crate.
use crate::{MetricsLayer, TracingContextLayer};
use metrics::counter;
use metrics_util::debugging::DebuggingRecorder;
use metrics_util::layers::Layer as _;
use tracing::dispatcher::{set_default, Dispatch};
use tracing::{span, Level};
use tracing_subscriber::{layer::SubscriberExt, Registry};

fn labels_of(snapshot: metrics_util::debugging::Snapshot, name: &str) -> Vec<(String, String)> {
    let v = snapshot.into_vec();
    let (ck, _, _, _) = v.iter().find(|(ck, _, _, _)| ck.key().name() == name).unwrap_or_else(|| panic!("metric {name} missing"));
    let mut l: Vec<(String, String)> = ck.key().labels().map(|l| (l.key().to_owned(), l.value().to_owned())).collect();
    l.sort();
    l
}

#[test]
fn labels_follow_the_span_tree_not_the_entered_stack() {
    let subscriber = Registry::default().with(MetricsLayer::new());
    let _g = set_default(&Dispatch::new(subscriber));
    let recorder = DebuggingRecorder::new();
    let snapshotter = recorder.snapshotter();
    let recorder = TracingContextLayer::all().layer(recorder);
    metrics::with_local_recorder(&recorder, || {
        let tenant = span!(Level::TRACE, "tenant", tenant = "acme");
        let other = span!(Level::TRACE, "other", shard = "s9");
        let _entered = other.enter();                       // `other` is entered on this thread ...
        // ... a root span created meanwhile has NO ancestors
        let root = span!(parent: None, Level::TRACE, "root", job = "j1");
        root.in_scope(|| counter!("in_root").increment(1));
        // ... and a child of `tenant` inherits from `tenant`, not from `other`
        let child = span!(parent: &tenant, Level::TRACE, "child", step = "x");
        child.in_scope(|| counter!("in_child").increment(1));
        // an ordinary contextual child still inherits from the entered span
        let ctx = span!(Level::TRACE, "ctx", n = 1);
        ctx.in_scope(|| counter!("in_ctx").increment(1));
    });
    let s = |k: &str, v: &str| (k.to_string(), v.to_string());
    assert_eq!(labels_of(snapshotter.snapshot(), "in_root"), vec![s("job", "j1")]);
    assert_eq!(labels_of(snapshotter.snapshot(), "in_child"), vec![s("step", "x"), s("tenant", "acme")]);
    assert_eq!(labels_of(snapshotter.snapshot(), "in_ctx"), vec![s("n", "1"), s("shard", "s9")]);
}
