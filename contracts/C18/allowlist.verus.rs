// C18 (allowlist clauses) — Verus contract for PrometheusBuilder::add_allowed_address
// (metrics-exporter-prometheus/src/exporter/builder.rs). //@ITEM blocks are replaced on every run by the real text.
#![allow(unused_imports, dead_code, unused_variables, unused_mut)]
use vstd::prelude::*;
use std::collections::HashMap;
use std::num::NonZeroU32;

verus! {

global size_of usize == 8;

//@INCLUDE prelude/std_extra.rs

// ------------------------------------------------------------------ the documented address syntax (specification)
pub use axioms::{is_ip_text, is_cidr_text, denoted_net, denoted_ip, host_net};

// ------------------------------------------------------------------ dependency stubs (ASSUMED contracts)
#[verifier::external_body]
pub struct IpNet { _p: [u8; 0] }
#[verifier::external_body]
pub struct IpAddr { _p: [u8; 0] }
#[verifier::external_body]
pub struct AddrParseError { _p: [u8; 0] }

impl IpNet {
    // ipnet 2.x: `IpNet::from_str` accepts exactly CIDR notation; a bare address is an error (its parser reads
    // ip '/' prefix-length; checked for dotted-quad input by the Kani harness c18_ipnet_requires_prefix, tier thorough)
    #[verifier::external_body]
    pub fn from_str(s: &str) -> (r: Result<IpNet, AddrParseError>)
        ensures r is Ok <==> is_cidr_text(s@), r is Ok ==> r->Ok_0 == denoted_net(s@),
    { unimplemented!() }
    // `impl From<IpAddr> for IpNet`: the /32 (or /128) network of that host
    #[verifier::external_body]
    pub fn from(ip: IpAddr) -> (r: IpNet)
        ensures r == host_net(ip),
    { unimplemented!() }
}
/// ipnet's `Contains<T>`: membership of an address, inclusion of a network
pub trait Contains<T> { fn contains(&self, other: T) -> bool; }
impl IpNet {
    /// the addresses of the block
    pub uninterp spec fn has(&self, ip: IpAddr) -> bool;
    pub uninterp spec fn base(&self) -> IpAddr;
    /// ipnet: the network (base) address of the block -- ONE address, not the block
    #[verifier::external_body] pub fn network(&self) -> (r: IpAddr) ensures r == self.base() { unimplemented!() }
}
impl Contains<&IpAddr> for IpNet {
    #[verifier::external_body] fn contains(&self, other: &IpAddr) -> (r: bool) ensures r == self.has(*other) { unimplemented!() }
}
impl Contains<&IpNet> for IpNet {
    /// true iff every address of `other` is in `self`
    #[verifier::external_body]
    fn contains(&self, other: &IpNet) -> (r: bool) ensures r == (forall|ip: IpAddr| other.has(ip) ==> #[trigger] self.has(ip)) { unimplemented!() }
}
/// what an allowlist admits (the meaning of the list; the endpoint's decision is C18's serve template)
pub open spec fn admits(list: Seq<IpNet>, ip: IpAddr) -> bool { exists|i: int| 0 <= i < list.len() && (#[trigger] list[i]).has(ip) }
pub proof fn lemma_admits_push(list: Seq<IpNet>, n: IpNet)
    ensures forall|ip: IpAddr| #[trigger] admits(list.push(n), ip) <==> (admits(list, ip) || n.has(ip)),
{
    assert forall|ip: IpAddr| #[trigger] admits(list.push(n), ip) <==> (admits(list, ip) || n.has(ip)) by {
        let l2 = list.push(n);
        if admits(list, ip) { let i = choose|i: int| 0 <= i < list.len() && (#[trigger] list[i]).has(ip); assert(l2[i] == list[i]); }
        if n.has(ip) { assert(l2[list.len() as int] == n); }
        if admits(l2, ip) { let i = choose|i: int| 0 <= i < l2.len() && (#[trigger] l2[i]).has(ip); if i < list.len() { assert(list[i] == l2[i]); } }
    }
}
impl IpAddr {
    #[verifier::external_body]
    pub fn from_str(s: &str) -> (r: Result<IpAddr, AddrParseError>)
        ensures r is Ok <==> is_ip_text(s@), r is Ok ==> r->Ok_0 == denoted_ip(s@),
    { unimplemented!() }
}
// ASSUMED: an address text contains no '/', a CIDR text does; a plain address denotes its host network
pub mod axioms {
    use vstd::prelude::*;
    use super::{IpNet, IpAddr};
    /// `s` is the text of one IP address (v4 dotted quad or v6), e.g. "10.0.0.1"
    pub uninterp spec fn is_ip_text(s: Seq<char>) -> bool;
    /// `s` is an address in CIDR notation `<ip>/<prefix length>`, e.g. "10.0.0.0/8"
    pub uninterp spec fn is_cidr_text(s: Seq<char>) -> bool;
    /// the network an entry written as `s` denotes: the CIDR block, or for a plain address the block holding just that host
    pub uninterp spec fn denoted_net(s: Seq<char>) -> IpNet;
    pub uninterp spec fn denoted_ip(s: Seq<char>) -> IpAddr;
    pub uninterp spec fn host_net(ip: IpAddr) -> IpNet;
    #[verifier::external_body]
    pub broadcast proof fn axiom_syntax_disjoint(s: Seq<char>)
        ensures !(#[trigger] is_ip_text(s) && is_cidr_text(s)),
    {
    }
    #[verifier::external_body]
    pub broadcast proof fn axiom_plain_denotes_host(s: Seq<char>)
        ensures #[trigger] is_ip_text(s) ==> denoted_net(s) == host_net(denoted_ip(s)),
    {
    }
}
broadcast use {axioms::axiom_syntax_disjoint, axioms::axiom_plain_denotes_host};

#[verifier::external_body] pub struct ExporterConfig { _p: [u8; 0] }
#[verifier::external_body] pub struct Quantile { _p: [u8; 0] }
#[verifier::external_body] pub struct Duration { _p: [u8; 0] }
#[verifier::external_body] pub struct Matcher { _p: [u8; 0] }
#[verifier::external_body] pub struct MetricKindMask { _p: [u8; 0] }
#[verifier::external_body]
#[verifier::reject_recursive_types(K)]
#[verifier::reject_recursive_types(V)]
pub struct IndexMap<K, V> { _p: std::marker::PhantomData<(K, V)> }

pub enum BuildError { InvalidAllowlistAddress(String), Other }

/// text rendering of an error (uninterpreted)
pub uninterp spec fn display<T>(v: &T) -> Seq<char>;
// R11: `E.to_string()` -> `shim_to_string(&E)`
#[verifier::external_body]
pub fn shim_to_string<T>(v: &T) -> (r: String)
    ensures r@ == display(v),
{ unimplemented!() }

// R15: `A.as_ref()` for `A: AsRef<str>` -> `shim_as_str(&A)` (trait method of an external trait on a generic type)
pub uninterp spec fn text_of<A>(a: &A) -> Seq<char>;
#[verifier::external_body]
pub fn shim_as_str<A: AsRef<str>>(a: &A) -> (r: &str)
    ensures r@ == text_of(a),
{ a.as_ref() }

// (Option::get_or_insert is specified by vstd)

// R14: `#[cfg(feature = "http-listener")]` / `#[cfg_attr(..)]` attribute lines dropped: verified as built with the feature on
//@ITEM file=metrics-exporter-prometheus/src/exporter/builder.rs sel=struct PrometheusBuilder
//@REWRITE R14 re:\s*#\[cfg_attr\([^\n]*\n ==> \n
//@REWRITE R14 re:\s*#\[cfg\(feature = "http-listener"\)\]\n ==> \n
//@END

impl PrometheusBuilder {
    spec fn allowed(&self) -> Seq<IpNet> { match self.allowed_addresses { Some(v) => v@, None => Seq::<IpNet>::empty() } }

//@ITEM file=metrics-exporter-prometheus/src/exporter/builder.rs sel=impl PrometheusBuilder :: fn add_allowed_address ret=r
//@REWRITE R14 use std::str::FromStr; ==> 
// R16: Verus has no `mut self` parameters: `fn f(mut self, ..) { B }` -> `fn f(self, ..) { let mut this = self; B[self := this] }`
//@REWRITE R16 re:\(mut self, ==> (self,
//@REWRITE R16 re:\bself\.allowed_addresses ==> this.allowed_addresses
//@REWRITE R16 re:Ok\(self\) ==> Ok(this)
//@REWRITE R15 re:\baddress\.as_ref\(\) ==> shim_as_str(&address)
//@REWRITE R11 re:\be\.to_string\(\) ==> shim_to_string(&e)
//@IF file=metrics-exporter-prometheus/src/exporter/builder.rs sel=impl PrometheusBuilder :: fn add_allowed_address contains=.map_err(|e|
//@REWRITE SPEC-closure re:\.map_err\(\|e\| BuildError::InvalidAllowlistAddress\(shim_to_string\(&e\)\)\) ==> .map_err(|e: AddrParseError| -> (b: BuildError) ensures b is InvalidAllowlistAddress { BuildError::InvalidAllowlistAddress(shim_to_string(&e)) })
//@ENDIF
//@SPEC
    ensures
        // every entry written in the documented syntax -- a plain IP address or CIDR notation -- is accepted and adds
        // exactly the network it denotes, after the entries already present
        // (stated over what the list ADMITS, so that skipping an entry that is already covered would be fine, dropping one that is
        // not would not) -- and the allowlist is switched on
        (is_ip_text(text_of(&address)) || is_cidr_text(text_of(&address))) ==>
            r is Ok && r->Ok_0.allowed_addresses is Some
            && (forall|ip: IpAddr| #[trigger] admits(r->Ok_0.allowed(), ip) <==> (admits(self.allowed(), ip) || denoted_net(text_of(&address)).has(ip))),
        // anything else is rejected with the documented error
        !(is_ip_text(text_of(&address)) || is_cidr_text(text_of(&address))) ==>
            r is Err && r->Err_0 is InvalidAllowlistAddress,
//@BODYSTART
        let mut this = self;
        let ghost list0 = self.allowed();
        let ghost t0 = text_of(&address);
//@BEFORE 1 Ok(this)
        proof {
            // whatever the body did to the list, if it appended the denoted network the clause follows
            lemma_admits_push(list0, denoted_net(t0));
        }
//@END
}

} // verus!
fn main() {}
