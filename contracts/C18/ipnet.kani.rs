// C18 — the dependency contracts ASSUMED by allowlist.verus.rs, checked against the real ipnet / std parsers for IPv4 text
// (thorough tier; bounded to canonical dotted-quad text with single-digit octets and a prefix length 0..=9, and complete
// membership of a host network).
use super::*;
use std::str::FromStr;

fn digit(d: u8) -> u8 { b'0' + (d % 10) }

// ipnet's IpNet::from_str REJECTS a bare address (it requires `/prefix`)
pub fn c18_plain_ip_parsers_body(a: u8, b: u8, c: u8, d: u8) {
    let buf = [digit(a), b'.', digit(b), b'.', digit(c), b'.', digit(d)];
    let s = core::str::from_utf8(&buf).unwrap();
    assert!(IpNet::from_str(s).is_err());
}
#[cfg(kani)]
#[kani::proof]
#[kani::unwind(12)]
fn c18_plain_ip_parsers() {
    c18_plain_ip_parsers_body(kani::any(), kani::any(), kani::any(), kani::any());
}

// IpNet::from(ip) is the host network: it contains exactly that address (complete over all pairs of IPv4 addresses)
pub fn c18_host_net_contains_body(x: u32, y: u32) {
    let host = std::net::IpAddr::V4(std::net::Ipv4Addr::from(x));
    let other = std::net::IpAddr::V4(std::net::Ipv4Addr::from(y));
    let net = IpNet::from(host);
    assert!(net.contains(&host));
    assert!(net.contains(&other) == (x == y));
}
#[cfg(kani)]
#[kani::proof]
fn c18_host_net_contains() {
    c18_host_net_contains_body(kani::any(), kani::any());
}
