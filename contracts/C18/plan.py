PLAN = {
    "property": "C18",
    "level": "proof",
    "manifest": {
        "technique": "Verus (z3) on PrometheusBuilder::add_allowed_address extracted verbatim, against the documented address syntax with ipnet's / std's parsers as ASSUMED contracts (allowlist clauses only)",
        "text": "Only the allowlist-construction clause is claimed: for every text in the documented syntax (a plain IP address or CIDR notation) add_allowed_address returns Ok and appends exactly the network the text denotes (the host network for a plain address); any other text is rejected with InvalidAllowlistAddress and nothing is added. Proved for all strings and all prior allowlists, given the parser contracts.",
        "note": "ASSUMED: ipnet::IpNet::from_str accepts exactly CIDR notation, std IpAddr::from_str exactly address text, IpNet::from(ip) is the host network, IpNet::contains is membership. NOT decided: serving (200/403 over hyper/tokio, /health, recovery after aborted/malformed/concurrent requests) -- no function boundary a contract can name; check_tcp_allowed's `any(contains)` is two lines inside a closure over a TcpStream (by inspection only).",
    },
    "min_obligations": {"quick": 1, "thorough": 1},
    "assumptions": [
        "ipnet 2.x: IpNet::from_str is Ok exactly for `<ip>/<prefix>` text (dependency contract, read from its parser)",
        "std: IpAddr::from_str is Ok exactly for address text; an address text is never a CIDR text",
        "IpNet::from(IpAddr) is the /32 or /128 network of that host; IpNet::contains is subnet membership",
        "R14: built with feature http-listener; R15/R16/R11 rewrites (AsRef::as_ref shim, `mut self`, to_string shim)",
        "HTTP serving, status codes, connection handling: not decided",
    ],
    "verus": [
        {"template": "allowlist.verus.rs", "tier": "quick", "rlimit": 30, "min_functions": 1},
    ],
    "witnesses": [
        {"match": r"add_allowed_address", "src": "witness_plain_ip.rs", "crate": "metrics-exporter-prometheus",
         "file": "metrics-exporter-prometheus/src/exporter/builder.rs"},
    ],
}
