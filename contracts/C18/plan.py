PLAN = {
    "property": "C18",
    "level": "proof",
    "manifest": {
        "technique": "Verus (z3) on PrometheusBuilder::add_allowed_address extracted verbatim, against the documented address syntax with ipnet's / std's parsers as ASSUMED contracts (allowlist clauses only)",
        "text": "Only the allowlist-construction clause is claimed: for every text in the documented syntax (a plain IP address or CIDR notation) add_allowed_address returns Ok and appends exactly the network the text denotes (the host network for a plain address); any other text is rejected with InvalidAllowlistAddress and nothing is added. Proved for all strings and all prior allowlists, given the parser contracts.",
        "note": "ASSUMED: ipnet::IpNet::from_str accepts exactly CIDR notation, std IpAddr::from_str exactly address text, IpNet::from(ip) is the host network, IpNet::contains is membership. NOT decided: serving (200/403 over hyper/tokio, /health, recovery after aborted/malformed/concurrent requests) -- no function boundary a contract can name; check_tcp_allowed's `any(contains)` is two lines inside a closure over a TcpStream (by inspection only).",
    },
    "min_obligations": {"quick": 1, "thorough": 1},
    "assumptions": [
        "ipnet 2.x: IpNet::from_str is Ok exactly for `<ip>/<prefix>` text (dependency contract, read from its parser)",
        "std: IpAddr::from_str is Ok exactly for address text; an address text is never a CIDR text",
        "IpNet::from(IpAddr) is the /32 or /128 network of that host; IpNet::contains is subnet membership",
        "R14: built with feature http-listener; R15/R16/R11 rewrites (AsRef::as_ref shim, `mut self`, to_string shim)",
        "HTTP serving, status codes, connection handling: not decided",
    ],
    "verus": [
        {"template": "allowlist.verus.rs", "tier": "quick", "rlimit": 30, "min_functions": 1},
    ],
    "kani": [{
        "crate": "metrics-exporter-prometheus", "cargo_args": ["--no-default-features", "--features", "http-listener"], "parallel": 2, "build_timeout": 3600,
        "modules": [{"file": "metrics-exporter-prometheus/src/exporter/builder.rs", "mod": "__verif_c18", "src": "ipnet.kani.rs"}],
        "functions": [{"item": "ipnet::IpNet::from_str / IpNet::from(IpAddr) / IpNet::contains, std IpAddr::from_str (dependency contracts assumed by the Verus template)", "file": "metrics-exporter-prometheus/src/exporter/builder.rs"}],
        "harnesses": [
            {"name": "c18_host_net_contains", "obligation": "C18/kani/c18_host_net_contains", "clause": "IpNet::from(ip).contains(q) <=> q == ip, all 2^64 IPv4 pairs", "kind": "complete", "tier": "thorough", "timeout": 1800, "replay": True},
            {"name": "c18_plain_ip_parsers", "obligation": "C18/kani/c18_plain_ip_parsers", "clause": "d.d.d.d: IpNet::from_str is Err (std IpAddr::from_str side dropped: together they exceeded the 12 GB cap)", "kind": "bounded", "bound": "dotted quad with single-digit octets", "tier": "thorough", "timeout": 3000, "replay": True},
        ],
    }],
    "witnesses": [
        {"match": r"add_allowed_address", "src": "witness_plain_ip.rs", "crate": "metrics-exporter-prometheus",
         "file": "metrics-exporter-prometheus/src/exporter/builder.rs"},
    ],
}
