PLAN = {
    "property": "C18",
    "level": "proof",
    "manifest": {
        "technique": "Verus (z3) on PrometheusBuilder::add_allowed_address, HttpListeningExporter::check_tcp_allowed and ::handle_http_request (async) extracted verbatim, with ipnet / std parsers and hyper's Request/Response as ASSUMED contracts",
        "text": "Claimed per function: (a) for every text in the documented syntax (a plain IP address or CIDR notation) add_allowed_address returns Ok and appends exactly the network the text denotes (the host network for a plain address); any other text is rejected with InvalidAllowlistAddress and nothing is added. Proved for all strings and all prior allowlists, given the parser contracts. (b) check_tcp_allowed: with no allowlist every peer is allowed; with one, exactly the peers whose address lies in some listed network (an undeterminable peer address is refused). (c) handle_http_request: a refused peer gets status 403 with an empty body; an allowed peer gets 200, text/plain, body OK for path /health and the handle's rendering for every other path.",
        "note": "ASSUMED: ipnet::IpNet::from_str accepts exactly CIDR notation, std IpAddr::from_str exactly address text, IpNet::from(ip) is the host network, IpNet::contains is membership. hyper Response/Request/HeaderMap/Full<Bytes> are stub types with assumed contracts; spawn_blocking(f).await.unwrap() is f's result. NOT decided: that process_tcp_stream hands check_tcp_allowed's answer to handle_http_request (a move-closure under service_fn + tokio::spawn), and the listener's survival of aborted/malformed/concurrent requests (accept loop, hyper connection tasks) -- whole-history behaviour of the runtime, no contract within reach.",
    },
    "min_obligations": {"quick": 3, "thorough": 3},
    "assumptions": [
        "ipnet 2.x: IpNet::from_str is Ok exactly for `<ip>/<prefix>` text (dependency contract, read from its parser)",
        "std: IpAddr::from_str is Ok exactly for address text; an address text is never a CIDR text",
        "IpNet::from(IpAddr) is the /32 or /128 network of that host; IpNet::contains is subnet membership",
        "R14: built with feature http-listener; R15/R16/R11 rewrites (AsRef::as_ref shim, `mut self`, to_string shim)",
        "hyper/http/http-body-util: Response::new is 200 with the given body, builder().status(s).body(b) is Ok with status s, HeaderMap::append appends, Full::from(text) carries the text; Uri::path is a function of the request",
        "tokio::task::spawn_blocking(f).await.unwrap() returns f() (a panic inside render is outside the model)",
        "TcpStream::peer_addr is a function of the stream; SocketAddr::ip is a function of the address",
        "glue between the two (process_tcp_stream's closure), the accept loop and connection tasks: not decided",
    ],
    "verus": [
        {"template": "allowlist.verus.rs", "tier": "quick", "rlimit": 30, "min_functions": 1},
        {"template": "serve.verus.rs", "tier": "quick", "rlimit": 30, "min_functions": 2},
    ],
    "kani": [{
        "crate": "metrics-exporter-prometheus", "cargo_args": ["--no-default-features", "--features", "http-listener"], "parallel": 2, "build_timeout": 3600,
        "modules": [{"file": "metrics-exporter-prometheus/src/exporter/builder.rs", "mod": "__verif_c18", "src": "ipnet.kani.rs"}],
        "functions": [{"item": "ipnet::IpNet::from_str / IpNet::from(IpAddr) / IpNet::contains, std IpAddr::from_str (dependency contracts assumed by the Verus template)", "file": "metrics-exporter-prometheus/src/exporter/builder.rs"}],
        "harnesses": [
            {"name": "c18_host_net_contains", "obligation": "C18/kani/c18_host_net_contains", "clause": "IpNet::from(ip).contains(q) <=> q == ip, all 2^64 IPv4 pairs", "kind": "complete", "tier": "thorough", "timeout": 1800, "replay": True},
            {"name": "c18_plain_ip_parsers", "obligation": "C18/kani/c18_plain_ip_parsers", "clause": "d.d.d.d: IpNet::from_str is Err (std IpAddr::from_str side dropped: together they exceeded the 12 GB cap)", "kind": "bounded", "bound": "dotted quad with single-digit octets", "tier": "thorough", "timeout": 3000, "replay": True},
        ],
    }],
    "witnesses": [
        {"match": r"add_allowed_address", "src": "witness_plain_ip.rs", "crate": "metrics-exporter-prometheus",
         "file": "metrics-exporter-prometheus/src/exporter/builder.rs"},
        # the serving clauses on the real listener over loopback (peers from chosen 127.x source addresses)
        {"match": r"(fn check_tcp_allowed|fn handle_http_request|fn new_http_listener)", "name": "impl HttpListeningExporter (serving)", "src": "witness_serve.rs",
         "crate": "metrics-exporter-prometheus", "file": "metrics-exporter-prometheus/src/exporter/http_listener.rs"},
    ],
}
