// C18 (allowlist decision + response selection clauses) — Verus contracts for
// metrics-exporter-prometheus/src/exporter/http_listener.rs `check_tcp_allowed` and `handle_http_request`
#![allow(unused_imports, dead_code, unused_variables, unused_mut)]
use vstd::prelude::*;

verus! {

global size_of usize == 8;

//@INCLUDE prelude/std_extra.rs

// ------------------------------------------------------------------ dependency stubs (ASSUMED contracts)
#[verifier::external_body] pub struct IpAddr { _p: [u8; 0] }
#[verifier::external_body] pub struct SocketAddr { _p: [u8; 0] }
impl SocketAddr {
    pub uninterp spec fn spec_ip(&self) -> IpAddr;
    #[verifier::external_body] pub fn ip(&self) -> (r: IpAddr) ensures r == self.spec_ip() { unimplemented!() }
}
#[verifier::external_body] pub struct IpNet { _p: [u8; 0] }
impl IpNet {
    /// subnet membership (ipnet's contract; IPv4 host networks checked by Kani harness c18_host_net_contains)
    pub uninterp spec fn has(&self, ip: &IpAddr) -> bool;
    #[verifier::external_body] pub fn contains(&self, ip: &IpAddr) -> (r: bool) ensures r == self.has(ip) { unimplemented!() }
}
#[verifier::external_body] #[derive(Debug)] pub struct IoError { _p: [u8; 0] }
#[verifier::external_body] pub struct TcpStream { _p: [u8; 0] }
impl TcpStream {
    /// the connected peer's address, if the OS can still tell
    pub uninterp spec fn peer(&self) -> Option<SocketAddr>;
    #[verifier::external_body]
    pub fn peer_addr(&self) -> (r: Result<SocketAddr, IoError>)
        ensures r is Ok <==> self.peer() is Some, r is Ok ==> r->Ok_0 == self.peer()->Some_0,
    { unimplemented!() }
}
#[verifier::external_body] pub struct TcpListener { _p: [u8; 0] }
#[verifier::external_body] pub struct PrometheusHandle { _p: [u8; 0] }
impl PrometheusHandle {
    /// the rendering of the metrics at the time of the call (its content is C07/C08's business)
    pub uninterp spec fn rendered(&self) -> Seq<char>;
    #[verifier::external_body] pub fn render(&self) -> (r: String) ensures r@ == self.rendered() { unimplemented!() }
    #[verifier::external_body] pub fn clone(&self) -> (r: PrometheusHandle) ensures r == *self { unimplemented!() }
}

// R14: `#[cfg(feature = "uds-listener")]` items dropped: verified as built without the uds-listener feature
//@ITEM file=metrics-exporter-prometheus/src/exporter/http_listener.rs sel=enum ListenerType
//@REWRITE R14 re:\s*#\[cfg\(feature = "uds-listener"\)\]\n\s*Uds\(UnixListener\),\n ==> \n
//@END
//@ITEM file=metrics-exporter-prometheus/src/exporter/http_listener.rs sel=struct HttpListeningExporter
//@END

/// `any` over the allowlist (Iterator::any is a provided trait method: R24 rewrites `L.iter().any(closure)` to shim_any)
pub open spec fn any_has(nets: Seq<IpNet>, ip: &IpAddr) -> bool { exists|i: int| 0 <= i < nets.len() && (#[trigger] nets[i]).has(ip) }
#[verifier::external_body]
pub fn shim_any<F: Fn(&IpNet) -> bool>(nets: &Vec<IpNet>, f: F) -> (r: bool)
    requires forall|i: int| 0 <= i < nets@.len() ==> f.requires((&#[trigger] nets@[i],)),
    ensures
        r ==> exists|i: int| 0 <= i < nets@.len() && f.ensures((&#[trigger] nets@[i],), true),
        !r ==> forall|i: int| 0 <= i < nets@.len() ==> f.ensures((&#[trigger] nets@[i],), false),
{ nets.iter().any(f) }

impl HttpListeningExporter {
//@ITEM file=metrics-exporter-prometheus/src/exporter/http_listener.rs sel=impl HttpListeningExporter :: fn check_tcp_allowed ret=allowed
// R3: tracing statements dropped
//@REWRITE R3? re:\n\s*warn!\([^;]*\); ==> 
// R24 + SPEC-closure: `V.iter().any(|a| E)` -> shim_any(V, |a| E) with the closure annotated "is membership of this net"
//@REWRITE R24 re:(\w+)\.iter\(\)\.any\(\|(\w+)\| (.+)\)\n ==> shim_any(\1, |\2: &IpNet| -> (b: bool) ensures b == \2.has(&remote_ip) { \3 })\n
// SPEC-closure: when the two outcomes of peer_addr() are handled by map_or_else closures, each closure is annotated with its
// clause of the postcondition (error -> refused; address -> membership); other shapes (match, if let, ?) need no annotation
//@IF file=metrics-exporter-prometheus/src/exporter/http_listener.rs sel=impl HttpListeningExporter :: fn check_tcp_allowed contains=.map_or_else(
//@REWRITE SPEC-closure re:map_or_else\(\s*\|(\w+)\| \{ ==> map_or_else(|\1: IoError| -> (b: bool) ensures !b {
//@REWRITE SPEC-closure re:\},\s*\|(\w+)\| \{ ==> }, |\1: SocketAddr| -> (b: bool) ensures b == any_has(addrs@, &\1.spec_ip()) {
//@ENDIF
//@SPEC
    ensures
        // no allowlist: everybody is served; with an allowlist: exactly the peers whose address lies in one of the listed networks
        // (a peer whose address cannot be determined is refused)
        allowed == (match self.allowed_addresses {
            None => true,
            Some(nets) => stream.peer() is Some && any_has(nets@, &stream.peer()->Some_0.spec_ip()),
        }),
//@END
}

// ---- hyper / http / http-body-util stubs (ASSUMED contracts: a response is (status, body bytes, content-type header))
#[verifier::external_body] pub struct Incoming { _p: [u8; 0] }
#[verifier::external_body] #[derive(Debug)] pub struct HyperError { _p: [u8; 0] }
#[verifier::external_body] pub struct Uri { _p: [u8; 0] }
impl Uri {
    pub uninterp spec fn spec_path(&self) -> &str;
    #[verifier::external_body] pub fn path(&self) -> (r: &str) ensures r == self.spec_path() { unimplemented!() }
}
#[verifier::external_body] #[verifier::reject_recursive_types(B)] pub struct Request<B> { _p: [u8; 0], _b: core::marker::PhantomData<B> }
impl<B> Request<B> {
    pub uninterp spec fn spec_uri(&self) -> Uri;
    #[verifier::external_body] pub fn uri(&self) -> (r: &Uri) ensures *r == self.spec_uri() { unimplemented!() }
}
#[verifier::external_body] pub struct Bytes { _p: [u8; 0] }
#[verifier::external_body] #[verifier::reject_recursive_types(D)] pub struct Full<D> { _p: [u8; 0], _b: core::marker::PhantomData<D> }
impl<D> Full<D> {
    /// the body's bytes as text
    pub uninterp spec fn text(&self) -> Seq<char>;
}
impl Full<Bytes> {
    #[verifier::external_body] pub fn default() -> (r: Self) ensures r.text() == Seq::<char>::empty() { unimplemented!() }
}
impl From<&'static str> for Full<Bytes> {
    #[verifier::external_body] fn from(s: &'static str) -> (r: Self) ensures r.text() == s@ { unimplemented!() }
}
impl From<String> for Full<Bytes> {
    #[verifier::external_body] fn from(s: String) -> (r: Self) ensures r.text() == s@ { unimplemented!() }
}
#[derive(PartialEq, Eq, Clone, Copy)]
pub struct StatusCode(pub u16);
impl StatusCode {
    pub const FORBIDDEN: StatusCode = StatusCode(403);
    pub const OK: StatusCode = StatusCode(200);
    pub const NOT_FOUND: StatusCode = StatusCode(404);
    pub const UNAUTHORIZED: StatusCode = StatusCode(401);
}
#[verifier::external_body] pub struct HeaderName { _p: [u8; 0] }
#[verifier::external_body] pub struct HeaderValue { _p: [u8; 0] }
impl HeaderValue {
    pub uninterp spec fn val(&self) -> Seq<char>;
    #[verifier::external_body] pub fn from_static(s: &'static str) -> (r: Self) ensures r.val() == s@ { unimplemented!() }
}
pub uninterp spec fn content_type_name() -> HeaderName;
#[verifier::external_body] pub fn shim_content_type() -> (r: HeaderName) ensures r == content_type_name() { unimplemented!() }
#[verifier::external_body] pub struct HeaderMap { _p: [u8; 0] }
impl HeaderMap {
    pub uninterp spec fn entries(&self) -> Seq<(HeaderName, HeaderValue)>;
    #[verifier::external_body]
    pub fn append(&mut self, k: HeaderName, v: HeaderValue) -> (r: bool)
        ensures final(self).entries() == old(self).entries().push((k, v)),
    { unimplemented!() }
}
#[verifier::reject_recursive_types(B)]
pub struct Response<B> { pub status: StatusCode, pub headers: HeaderMap, pub body: B }
impl<B> Response<B> {
    #[verifier::external_body]
    pub fn new(body: B) -> (r: Self) ensures r.status == StatusCode(200), r.body == body, r.headers.entries() == Seq::<(HeaderName, HeaderValue)>::empty() { unimplemented!() }
    pub fn headers_mut(&mut self) -> (r: &mut HeaderMap)
        ensures *r == old(self).headers, *final(r) == final(self).headers, final(self).status == old(self).status, final(self).body == old(self).body,
    { &mut self.headers }
}
pub struct ResponseBuilder { pub status: StatusCode }
impl Response<()> {
    pub fn builder() -> (r: ResponseBuilder) ensures r.status == StatusCode(200) { ResponseBuilder { status: StatusCode(200) } }
}
#[verifier::external_body] #[derive(Debug)] pub struct HttpError { _p: [u8; 0] }
impl ResponseBuilder {
    pub fn status(self, s: StatusCode) -> (r: ResponseBuilder) ensures r.status == s { ResponseBuilder { status: s } }
    #[verifier::external_body]
    pub fn body<B>(self, b: B) -> (r: Result<Response<B>, HttpError>)
        ensures r is Ok, r->Ok_0.status == self.status, r->Ok_0.body == b, r->Ok_0.headers.entries() == Seq::<(HeaderName, HeaderValue)>::empty(),
    { unimplemented!() }
}
/// tokio::task::spawn_blocking(f).await.unwrap(): the closure's result (R25; a panic inside the closure is outside the model)
#[verifier::external_body]
pub async fn shim_spawn_blocking_unwrap<R, F: FnOnce() -> R>(f: F) -> (r: R)
    requires f.requires(()),
    ensures f.ensures((), r),
{ unimplemented!() }

impl HttpListeningExporter {
//@ITEM file=metrics-exporter-prometheus/src/exporter/http_listener.rs sel=impl HttpListeningExporter :: fn handle_http_request ret=res
//@REWRITE R-types hyper::Error ==> HyperError
// SPEC-closure: the blocking closure is annotated with its result (Verus knows nothing about an unannotated closure)
//@REWRITE R25+R18 re:tokio::task::spawn_blocking\((move \|\| handle\.render\(\))\)\.await\.unwrap\(\)\.into\(\) ==> Full::<Bytes>::from(shim_spawn_blocking_unwrap(move || -> (s: String) ensures s@ == handle.rendered() { handle.render() }).await)
//@REWRITE R26 CONTENT_TYPE ==> shim_content_type()
//@REWRITE R18 "OK".into() ==> Full::<Bytes>::from("OK")
//@SPEC
    ensures
        res is Ok,
        // refused peers get 403 and no metrics
        !is_allowed ==> res->Ok_0.status == StatusCode(403) && res->Ok_0.body.text() == Seq::<char>::empty(),
        // allowed peers: /health answers OK, every other path answers the rendering
        is_allowed ==> res->Ok_0.status == StatusCode(200),
        is_allowed ==> res->Ok_0.headers.entries().len() == 1 && res->Ok_0.headers.entries()[0].0 == content_type_name()
            && res->Ok_0.headers.entries()[0].1.val() == "text/plain"@,
        is_allowed && req.spec_uri().spec_path() == "/health" ==> res->Ok_0.body.text() == "OK"@,
        is_allowed && req.spec_uri().spec_path() != "/health" ==> res->Ok_0.body.text() == handle.rendered(),
//@END
}

} // verus!
fn main() {}
