// Hand-derived from the failed clause of `add_allowed_address/ensures`: the builder documents "an IP address or subnet";
// a plain address must be accepted and must allow exactly that host.
use super::*;

#[test]
fn plain_ip_address_is_accepted_and_allows_exactly_that_host() {
    let b = PrometheusBuilder::new().add_allowed_address("10.0.0.1").expect("a plain IP address is documented syntax");
    let nets = b.allowed_addresses.clone().expect("allowlist configured");
    assert_eq!(nets.len(), 1);
    let inside: std::net::IpAddr = "10.0.0.1".parse().unwrap();
    let outside: std::net::IpAddr = "10.0.0.2".parse().unwrap();
    assert!(nets[0].contains(&inside));
    assert!(!nets[0].contains(&outside));
    // CIDR notation keeps working, entries are appended in order
    let b = b.add_allowed_address("192.168.0.0/16").unwrap().add_allowed_address("::1").unwrap();
    assert_eq!(b.allowed_addresses.as_ref().unwrap().len(), 3);
}
