// Hand-derived from the failed clause of `add_allowed_address/ensures`: the builder documents "an IP address or subnet";
// a plain address must be accepted and must allow exactly that host.
use super::*;

#[test]
fn plain_ip_address_is_accepted_and_allows_exactly_that_host() {
    let b = PrometheusBuilder::new().add_allowed_address("10.0.0.1").expect("a plain IP address is documented syntax");
    let nets = b.allowed_addresses.clone().expect("allowlist configured");
    assert_eq!(nets.len(), 1);
    let inside: std::net::IpAddr = "10.0.0.1".parse().unwrap();
    let outside: std::net::IpAddr = "10.0.0.2".parse().unwrap();
    assert!(nets[0].contains(&inside));
    assert!(!nets[0].contains(&outside));
    // CIDR notation keeps working, entries are appended in order
    let b = b.add_allowed_address("192.168.0.0/16").unwrap().add_allowed_address("::1").unwrap();
    assert_eq!(b.allowed_addresses.as_ref().unwrap().len(), 3);
    // every listed network allows the peers inside it and a plain address of EITHER family allows exactly that host
    let nets = b.allowed_addresses.clone().unwrap();
    let v6_host: std::net::IpAddr = "::1".parse().unwrap();
    let v6_other: std::net::IpAddr = "::2".parse().unwrap();
    let v6_far: std::net::IpAddr = "0:0:0:1::1".parse().unwrap();
    assert!(nets[2].contains(&v6_host));
    assert!(!nets[2].contains(&v6_other) && !nets[2].contains(&v6_far), "a plain IPv6 address stands for that host only");
    let in16: std::net::IpAddr = "192.168.200.7".parse().unwrap();
    let out16: std::net::IpAddr = "192.169.0.1".parse().unwrap();
    assert!(nets[1].contains(&in16) && !nets[1].contains(&out16));
    // "a peer inside ANY listed network is served": whatever was listed before, a network listed later must be honoured too
    let b = PrometheusBuilder::new().add_allowed_address("10.0.0.0/24").unwrap().add_allowed_address("10.0.0.0/8").unwrap()
        .add_allowed_address("10.0.0.0/24").unwrap();
    let nets = b.allowed_addresses.clone().unwrap();
    let wide_peer: std::net::IpAddr = "10.200.3.4".parse().unwrap();
    let narrow_peer: std::net::IpAddr = "10.0.0.9".parse().unwrap();
    assert!(nets.iter().any(|n| n.contains(&wide_peer)), "a peer inside the later, wider network must be allowed");
    assert!(nets.iter().any(|n| n.contains(&narrow_peer)));
}
