// Hand-derived from the contracts of `check_tcp_allowed` / `handle_http_request` ("a peer whose address lies in none of the
// listed networks always receives 403 with an empty body; a peer inside ANY listed network is served; /health returns OK"):
// the real listener on loopback, peers connecting from chosen 127.x.y.z source addresses, nested and disjoint networks.
use super::*;
use crate::PrometheusBuilder;
use std::io::{Read, Write};
use std::net::{Ipv4Addr, SocketAddr};

/// None = the environment would not let us open the connection (no loopback alias, ...): the witness then decides nothing
async fn get(from: [u8; 4], to: SocketAddr, path: &'static str) -> Option<(u16, String)> {
    let sock = tokio::net::TcpSocket::new_v4().ok()?;
    sock.bind(SocketAddr::from((Ipv4Addr::from(from), 0))).ok()?;
    let stream = sock.connect(to).await.ok()?.into_std().ok()?;
    tokio::task::spawn_blocking(move || {
        stream.set_nonblocking(false).unwrap();
        let mut stream = stream;
        stream.write_all(format!("GET {path} HTTP/1.1\r\nHost: w\r\nConnection: close\r\n\r\n").as_bytes()).unwrap();
        let mut buf = Vec::new();
        let _ = stream.read_to_end(&mut buf);
        let text = String::from_utf8_lossy(&buf).to_string();
        let status: u16 = text.split_whitespace().nth(1).and_then(|s| s.parse().ok()).unwrap_or(0);
        let body = text.split("\r\n\r\n").nth(1).unwrap_or("").to_string();
        (status, body)
    })
    .await
    .ok()
}

#[test]
fn peers_inside_any_listed_network_are_served_all_others_get_403() {
    let rt = tokio::runtime::Builder::new_multi_thread().enable_all().build().unwrap();
    rt.block_on(async {
        let port = tokio::net::TcpListener::bind("127.0.0.1:0").await.unwrap().local_addr().unwrap().port();
        let addr = SocketAddr::from(([127, 0, 0, 1], port));
        let (_recorder, exporter) = PrometheusBuilder::new()
            .with_http_listener(addr)
            .add_allowed_address("127.0.0.0/26").unwrap()     // outer block .0 - .63
            .add_allowed_address("127.0.0.8/30").unwrap()     // nested inside it
            .add_allowed_address("127.0.2.5").unwrap()        // a single host elsewhere
            .add_allowed_address("127.0.1.0/30").unwrap()
            .build().unwrap();
        rt.spawn(exporter);
        tokio::time::sleep(std::time::Duration::from_millis(200)).await;
        // environment probe: if even the plain loopback peer cannot reach the listener, this machine cannot run the witness
        if get([127, 0, 0, 1], addr, "/health").await.is_none() { eprintln!("witness_serve: loopback unavailable, nothing decided"); return; }
        for inside in [[127, 0, 0, 1], [127, 0, 0, 9], [127, 0, 0, 12], [127, 0, 0, 40], [127, 0, 0, 63], [127, 0, 2, 5], [127, 0, 1, 2]] {
            let Some((status, _)) = get(inside, addr, "/metrics").await else { continue };
            assert_eq!(status, 200, "peer {inside:?} lies in a listed network and must be served");
            let Some((status, body)) = get(inside, addr, "/health").await else { continue };
            assert_eq!((status, body.trim()), (200, "OK"), "peer {inside:?}: /health");
        }
        for outside in [[127, 0, 0, 64], [127, 0, 2, 4], [127, 0, 2, 6], [127, 0, 1, 4], [127, 1, 0, 1]] {
            for path in ["/metrics", "/health", "/"] {
                let Some((status, body)) = get(outside, addr, path).await else { continue };
                assert_eq!((status, body.as_str()), (403, ""), "peer {outside:?} lies in no listed network: GET {path}");
            }
        }
    });
}

/// reads one HTTP/1.1 response with a Content-Length from a blocking stream
fn read_response(stream: &mut std::net::TcpStream) -> (u16, String) {
    let mut buf: Vec<u8> = Vec::new();
    let mut byte = [0u8; 1];
    while !buf.ends_with(b"\r\n\r\n") {
        if stream.read(&mut byte).unwrap_or(0) == 0 { break; }
        buf.push(byte[0]);
    }
    let head = String::from_utf8_lossy(&buf).to_string();
    let status: u16 = head.split_whitespace().nth(1).and_then(|s| s.parse().ok()).unwrap_or(0);
    let len: usize = head.lines().find_map(|l| l.to_ascii_lowercase().strip_prefix("content-length:").map(|v| v.trim().parse().unwrap_or(0))).unwrap_or(0);
    let mut body = vec![0u8; len];
    stream.read_exact(&mut body).unwrap();
    (status, String::from_utf8_lossy(&body).to_string())
}

#[test]
fn every_scrape_is_a_rendering_of_the_metrics_at_that_time() {
    use metrics::{Key, Level, Metadata, Recorder};
    static M: Metadata<'static> = Metadata::new("w", Level::INFO, None);
    let rt = tokio::runtime::Builder::new_multi_thread().enable_all().build().unwrap();
    rt.block_on(async {
        let port = tokio::net::TcpListener::bind("127.0.0.1:0").await.unwrap().local_addr().unwrap().port();
        let addr = SocketAddr::from(([127, 0, 0, 1], port));
        let (recorder, exporter) = PrometheusBuilder::new().with_http_listener(addr).build().unwrap();
        rt.spawn(exporter);
        tokio::time::sleep(std::time::Duration::from_millis(200)).await;
        let gauge = recorder.register_gauge(&Key::from_name("level"), &M);
        gauge.set(1.0);
        tokio::task::spawn_blocking(move || {
            // several scrapes over ONE connection (keep-alive), the value changes in between
            let Ok(mut stream) = std::net::TcpStream::connect(addr) else { return };
            for (i, v) in [1.0f64, 2.0, 3.0].iter().copied().enumerate() {
                gauge.set(v);
                stream.write_all(b"GET /metrics HTTP/1.1\r\nHost: w\r\n\r\n").unwrap();
                let (status, body) = read_response(&mut stream);
                assert_eq!(status, 200);
                assert!(body.contains(&format!("level {v}")), "scrape #{i} on one connection must show the value at that time ({v}):\n{body}");
            }
            // and on a fresh connection
            gauge.set(9.0);
            let Ok(mut s2) = std::net::TcpStream::connect(addr) else { return };
            s2.write_all(b"GET / HTTP/1.1\r\nHost: w\r\n\r\n").unwrap();
            let (_, body) = read_response(&mut s2);
            assert!(body.contains("level 9"));
        })
        .await
        .unwrap();
    });
}
