// C19 — Verus contracts for metrics-util/src/debugging.rs (DebuggingRecorder::{describe_metric, track_metric}, Snapshotter::snapshot)
// //@ITEM blocks are replaced on every run by the item's text taken verbatim from /repo's working tree.
#![feature(allocator_api)]
#![allow(unused_imports, dead_code, unused_variables, unused_mut)]
use vstd::prelude::*;
use std::sync::{Arc, Mutex, MutexGuard, PoisonError, LockResult};
use std::ops::{Deref, DerefMut};
use std::sync::atomic::Ordering;
use std::collections::HashMap;
use vstd::std_specs::hash::*;

verus! {

global size_of usize == 8;

//@INCLUDE prelude/std_extra.rs
//@INCLUDE prelude/mutex_types.rs

// ASSUMED: the mutexes are never poisoned (no thread panics while holding them), so `lock().expect(..)` cannot panic;
// the protected value at acquisition is ARBITRARY (the rely of a lock-protected structure)
pub assume_specification<'a, T: ?Sized>[ Mutex::<T>::lock ](m: &'a Mutex<T>) -> (r: LockResult<MutexGuard<'a, T>>)
    ensures r is Ok;
pub uninterp spec fn mguarded<'a, 'b, T: ?Sized>(g: &'b MutexGuard<'a, T>) -> &'b T;
pub assume_specification<'a, 'b, T: ?Sized>[ <MutexGuard<'a, T> as Deref>::deref ](g: &'b MutexGuard<'a, T>) -> (r: &'b T)
    ensures r == mguarded(g);
pub assume_specification<'a, 'b, T: ?Sized>[ <MutexGuard<'a, T> as DerefMut>::deref_mut ](g: &'b mut MutexGuard<'a, T>) -> (r: &'b mut T)
    ensures &*r == mguarded(old(g)), mguarded(final(g)) == &*final(r);

// ------------------------------------------------------------------ dependency stubs (ASSUMED specs)
#[verifier::external_body] pub struct Key { _p: [u8; 0] }
#[verifier::external_body] pub struct KeyName { _p: [u8; 0] }
#[derive(Clone, Copy)]
pub struct Unit { pub u: u8 }
#[verifier::external_body] pub struct SharedString { _p: [u8; 0] }
impl SharedString {
    // Cow<'static, str>::to_owned() on a reference yields an equal value
    #[verifier::external_body]
    pub fn to_owned(&self) -> (r: SharedString) ensures r == *self { unimplemented!() }
}
#[derive(Clone, Copy, PartialEq, Eq)]
pub enum MetricKind { Counter, Gauge, Histogram }

/// indexmap::IndexMap (dependency stub): a map that remembers insertion order.
/// view = (keys in order of FIRST insertion, key -> value)
#[verifier::external_body]
#[verifier::reject_recursive_types(K)]
#[verifier::reject_recursive_types(V)]
pub struct IndexMap<K, V> { _p: std::marker::PhantomData<(K, V)> }
#[verifier::reject_recursive_types(K)]
#[verifier::reject_recursive_types(V)]
pub struct IndexEntry<'a, K, V> { pub map: &'a mut IndexMap<K, V>, pub key: K }
impl<K, V> IndexMap<K, V> {
    pub uninterp spec fn order(&self) -> Seq<K>;
    pub uninterp spec fn view(&self) -> Map<K, V>;
    #[verifier::external_body]
    pub fn entry(&mut self, key: K) -> (e: IndexEntry<'_, K, V>)
        ensures e.key == key, *e.map == *old(self), *final(self) == *final(e.map),
    { unimplemented!() }
    // ASSUMED indexmap contract: inserting an existing key replaces its value and KEEPS its position; a new key is appended
    #[verifier::external_body]
    pub fn insert(&mut self, key: K, value: V) -> (r: Option<V>)
        ensures
            final(self)@ == old(self)@.insert(key, value),
            old(self)@.contains_key(key) ==> final(self).order() == old(self).order(),
            !old(self)@.contains_key(key) ==> final(self).order() == old(self).order().push(key),
    { unimplemented!() }
}
#[verifier::external_body]
#[verifier::reject_recursive_types(K)]
#[verifier::reject_recursive_types(V)]
pub struct IndexIntoIter<K, V> { _p: std::marker::PhantomData<(K, V)> }
pub mod ix_axioms {
    use vstd::prelude::*;
    pub uninterp spec fn ix_remaining<K, V>(it: &super::IndexIntoIter<K, V>) -> Seq<(K, V)>;
}
pub use ix_axioms::ix_remaining;
impl<K, V> IndexMap<K, V> {
    // ASSUMED indexmap contract: iteration yields the entries in insertion order, each once
    #[verifier::external_body]
    pub fn into_iter(self) -> (it: IndexIntoIter<K, V>)
        ensures ix_remaining(&it).len() == self.order().len(),
            forall|i: int| 0 <= i < self.order().len() ==> (#[trigger] ix_remaining(&it)[i]).0 == self.order()[i],
    { unimplemented!() }
    #[verifier::external_body]
    pub fn get(&self, k: &K) -> (r: Option<&V>)
        ensures r is Some <==> self@.contains_key(*k), r is Some ==> *r->Some_0 == self@[*k],
    { unimplemented!() }
}
impl<K, V> Clone for IndexMap<K, V> {
    #[verifier::external_body]
    fn clone(&self) -> (r: Self) ensures r == *self { unimplemented!() }
}
pub fn shim_ix_identity<K, V>(it: IndexIntoIter<K, V>) -> (r: IndexIntoIter<K, V>)
    ensures r == it,
{ it }
#[verifier::external_body]
pub fn shim_ix_next<K, V>(it: &mut IndexIntoIter<K, V>) -> (r: Option<(K, V)>)
    ensures match r {
        Some(x) => ix_remaining(old(it)).len() > 0 && x == ix_remaining(old(it))[0] && ix_remaining(final(it)) == ix_remaining(old(it)).skip(1),
        None => ix_remaining(old(it)).len() == 0 && ix_remaining(final(it)) == ix_remaining(old(it)),
    },
{ unimplemented!() }
impl<'a, K, V> IndexEntry<'a, K, V> {
    // ASSUMED indexmap contract: the existing value of an occupied entry (default NOT used), else the default is inserted (appended)
    #[verifier::external_body]
    pub fn or_insert(self, default: V) -> (r: &'a mut V)
        ensures
            old(self.map)@.contains_key(self.key) ==> *r == old(self.map)@[self.key] && (*final(self.map)).order() == old(self.map).order(),
            !old(self.map)@.contains_key(self.key) ==> *r == default && (*final(self.map)).order() == old(self.map).order().push(self.key),
            (*final(self.map))@ == old(self.map)@.insert(self.key, *final(r)),
    { unimplemented!() }
}

//@ITEM file=metrics-util/src/key.rs sel=struct CompositeKey
//@END
impl CompositeKey {
//@ITEM file=metrics-util/src/key.rs sel=impl CompositeKey :: fn new ret=r
//@SPEC
    ensures r == CompositeKey(kind, key),
//@END
//@ITEM file=metrics-util/src/key.rs sel=impl CompositeKey :: fn key ret=r
//@SPEC
    ensures *r == self.1,
//@END
//@ITEM file=metrics-util/src/key.rs sel=impl CompositeKey :: fn kind ret=r
//@SPEC
    ensures r == self.0,
//@END
}
//@ITEM file=metrics-util/src/debugging.rs sel=struct CompositeKeyName
//@END
impl CompositeKeyName {
//@ITEM file=metrics-util/src/debugging.rs sel=impl CompositeKeyName :: fn new ret=r
//@SPEC
    ensures r.0 == kind, r.1 == key_name,
//@END
}

#[verifier::external_body]
#[verifier::reject_recursive_types(K)]
#[verifier::reject_recursive_types(S)]
pub struct Registry<K, S> { _p: std::marker::PhantomData<(K, S)> }
#[verifier::external_body] pub struct AtomicStorage { _p: [u8; 0] }
#[verifier::external_body] pub struct AtomicCell { _p: [u8; 0] }
impl AtomicCell {
    pub uninterp spec fn now(&self) -> u64;
    #[verifier::external_body] pub fn load(&self, o: Ordering) -> (r: u64) ensures r == self.now() { unimplemented!() }
}
#[verifier::external_body] pub struct Bucket { _p: [u8; 0] }
impl Bucket {
    /// nothing pushed since the last clear (C05's subject)
    #[verifier::external_body] pub fn is_empty(&self) -> (r: bool) ensures r == (pending(self).len() == 0) { unimplemented!() }
}
/// metrics::{Counter, Gauge, Histogram}: a handle is identified by the storage cell behind it
#[verifier::external_body] pub struct Counter { _p: [u8; 0] }
#[verifier::external_body] pub struct Gauge { _p: [u8; 0] }
#[verifier::external_body] pub struct Histogram { _p: [u8; 0] }
#[verifier::external_body] pub struct Metadata<'a> { _p: std::marker::PhantomData<&'a u8> }
impl Counter {
    pub uninterp spec fn cell(&self) -> Arc<AtomicCell>;
    #[verifier::external_body] pub fn from_arc(a: Arc<AtomicCell>) -> (r: Counter) ensures r.cell() == a { unimplemented!() }
}
impl Gauge {
    pub uninterp spec fn cell(&self) -> Arc<AtomicCell>;
    #[verifier::external_body] pub fn from_arc(a: Arc<AtomicCell>) -> (r: Gauge) ensures r.cell() == a { unimplemented!() }
}
impl Histogram {
    pub uninterp spec fn cell(&self) -> Arc<Bucket>;
    #[verifier::external_body] pub fn from_arc(a: Arc<Bucket>) -> (r: Histogram) ensures r.cell() == a { unimplemented!() }
}
impl<S> Registry<Key, S> {
    /// THE storage of (kind, key) in this registry (C06's contract: one per kind and key; counters and gauges never share)
    pub uninterp spec fn counter_storage(&self, key: Key) -> Arc<AtomicCell>;
    pub uninterp spec fn gauge_storage(&self, key: Key) -> Arc<AtomicCell>;
    pub uninterp spec fn histogram_storage(&self, key: Key) -> Arc<Bucket>;
    #[verifier::external_body]
    pub fn get_or_create_counter<O, V>(&self, key: &Key, op: O) -> (v: V) where O: FnOnce(&Arc<AtomicCell>) -> V
        requires forall|c: &Arc<AtomicCell>| op.requires((c,)),
        ensures exists|c: &Arc<AtomicCell>| *c == self.counter_storage(*key) && #[trigger] op.ensures((c,), v),
    { unimplemented!() }
    #[verifier::external_body]
    pub fn get_or_create_gauge<O, V>(&self, key: &Key, op: O) -> (v: V) where O: FnOnce(&Arc<AtomicCell>) -> V
        requires forall|c: &Arc<AtomicCell>| op.requires((c,)),
        ensures exists|c: &Arc<AtomicCell>| *c == self.gauge_storage(*key) && #[trigger] op.ensures((c,), v),
    { unimplemented!() }
    #[verifier::external_body]
    pub fn get_or_create_histogram<O, V>(&self, key: &Key, op: O) -> (v: V) where O: FnOnce(&Arc<Bucket>) -> V
        requires forall|c: &Arc<Bucket>| op.requires((c,)),
        ensures exists|c: &Arc<Bucket>| *c == self.histogram_storage(*key) && #[trigger] op.ensures((c,), v),
    { unimplemented!() }
    #[verifier::external_body]
    pub fn get_counter(&self, key: &Key) -> (r: Option<Arc<AtomicCell>>) ensures r is Some ==> r->Some_0 == self.counter_storage(*key) { unimplemented!() }
    #[verifier::external_body]
    pub fn get_gauge(&self, key: &Key) -> (r: Option<Arc<AtomicCell>>) ensures r is Some ==> r->Some_0 == self.gauge_storage(*key) { unimplemented!() }
    #[verifier::external_body]
    pub fn get_histogram(&self, key: &Key) -> (r: Option<Arc<Bucket>>) ensures r is Some ==> r->Some_0 == self.histogram_storage(*key) { unimplemented!() }

    #[verifier::external_body] pub fn get_counter_handles(&self) -> HashMap<Key, Arc<AtomicCell>> { unimplemented!() }
    #[verifier::external_body] pub fn get_gauge_handles(&self) -> HashMap<Key, Arc<AtomicCell>> { unimplemented!() }
    #[verifier::external_body] pub fn get_histogram_handles(&self) -> HashMap<Key, Arc<Bucket>> { unimplemented!() }
}
impl Key {
    #[verifier::external_body] pub fn name(&self) -> &str { unimplemented!() }
}
impl Clone for Key {
    #[verifier::external_body] fn clone(&self) -> (r: Self) ensures r == *self { unimplemented!() }
}
impl KeyName {
    #[verifier::external_body] pub fn from(s: String) -> KeyName { unimplemented!() }
}
pub uninterp spec fn f64_of_bits(b: u64) -> f64;
pub assume_specification[ f64::from_bits ](b: u64) -> (r: f64)
    ensures r == f64_of_bits(b);

//@ITEM file=metrics-util/src/debugging.rs sel=struct Inner
//@END
//@ITEM file=metrics-util/src/debugging.rs sel=struct DebuggingRecorder
//@END

// R17: `h.clear_with(|xs| values.extend(xs.iter().map(|f| OrderedFloat::from(*f))))` -> `shim_clear_extend(h, &mut values)`
// (closure capturing a mutable reference); ASSUMED bucket contract: the values pushed since the last clear, each once
pub uninterp spec fn pending(b: &Bucket) -> Seq<OrderedF64>;
#[verifier::external_body]
pub fn shim_clear_extend(h: &Arc<Bucket>, values: &mut Vec<OrderedF64>)
    ensures final(values)@ == old(values)@ + pending(&**h),
{ unimplemented!() }
#[verifier::external_body]
#[verifier::reject_recursive_types(T)]
pub struct OrderedFloat<T> { _p: std::marker::PhantomData<T> }   // ordered_float::OrderedFloat (dependency stub)
pub type OrderedF64 = OrderedFloat<f64>;
impl OrderedFloat<f64> {
    #[verifier::external_body] pub fn from(v: f64) -> OrderedFloat<f64> { unimplemented!() }
}
//@ITEM file=metrics-util/src/debugging.rs sel=enum DebugValue
//@END
//@ITEM file=metrics-util/src/debugging.rs sel=struct Snapshot
//@END
//@ITEM file=metrics-util/src/debugging.rs sel=struct Snapshotter
//@END

pub type Item = (CompositeKey, Option<Unit>, Option<SharedString>, DebugValue);
spec fn keys_of(v: Seq<Item>) -> Seq<CompositeKey> { v.map_values(|t: Item| t.0) }
/// registered = a storage for this (kind, key) exists in the registry listing taken at the start of the snapshot
spec fn registered(ck: CompositeKey, c: Map<Key, Arc<AtomicCell>>, g: Map<Key, Arc<AtomicCell>>, h: Map<Key, Arc<Bucket>>) -> bool {
    match ck.0 { MetricKind::Counter => c.contains_key(ck.1), MetricKind::Gauge => g.contains_key(ck.1), MetricKind::Histogram => h.contains_key(ck.1) }
}
/// what a snapshot must list: every key seen (in order of first registration) that is registered -- not the ones only described
spec fn emitted(order: Seq<CompositeKey>, c: Map<Key, Arc<AtomicCell>>, g: Map<Key, Arc<AtomicCell>>, h: Map<Key, Arc<Bucket>>) -> Seq<CompositeKey>
    decreases order.len(),
{
    if order.len() == 0 { Seq::empty() }
    else if registered(order.last(), c, g, h) { emitted(order.drop_last(), c, g, h).push(order.last()) }
    else { emitted(order.drop_last(), c, g, h) }
}

impl Snapshotter {
//@ITEM file=metrics-util/src/debugging.rs sel=impl Snapshotter :: fn snapshot ret=snap
//@FORLOOP 1 it shim_ix_identity shim_ix_next
// R18: `X.into()` where the target type is fixed by the callee -> `T::from(X)` (Into is the blanket impl over From)
//@REWRITE R18 re:DebugValue::Gauge\(value\.into\(\)\) ==> DebugValue::Gauge(OrderedFloat::from(value))
//@REWRITE R18 re:(\w+)\.key\(\)\.name\(\)\.to_string\(\)\.into\(\) ==> KeyName::from(\1.key().name().to_string())
//@REWRITE R17 re:h\.clear_with\(\|xs\| values\.extend\(xs\.iter\(\)\.map\(\|f\| OrderedFloat::from\(\*f\)\)\)\); ==> shim_clear_extend(h, &mut values);
//@REWRITE SPEC-closure re:\.map\(\|c\| DebugValue::Counter\(c\.load\(Ordering::SeqCst\)\)\) ==> .map(|c: &Arc<AtomicCell>| -> (v: DebugValue) ensures v == DebugValue::Counter(c.now()) { DebugValue::Counter(c.load(Ordering::SeqCst)) })
//@REWRITE R13? re:\.map\(\|\(u, d\)\| \(u\.to_owned\(\), Some\(d\.to_owned\(\)\)\)\) ==> .map(|ud| (ud.0.to_owned(), Some(ud.1.to_owned())))
//@SPEC
    requires obeys_key_model::<Key>(),
//@AFTER 1 let metadata = self.inner.metadata.lock()
        let ghost so = seen.order();
//@LOOP 1
            invariant
                obeys_key_model::<Key>(),
                so.len() >= ix_remaining(&it).len(),
                forall|i: int| 0 <= i < ix_remaining(&it).len() ==> (#[trigger] ix_remaining(&it)[i]).0 == so[so.len() - ix_remaining(&it).len() + i],
                keys_of(snapshot@) =~= emitted(so.take(so.len() - ix_remaining(&it).len()), counters@, gauges@, histograms@),
            ensures ix_remaining(&it).len() == 0,
            decreases ix_remaining(&it).len(),
//@BEFORE 1 let value = match ck.kind() {
            let ghost i0 = so.len() - ix_remaining(&it).len() - 1;
            let ghost snap0 = snapshot@;
            proof {
                assert(ck == so[i0]);
                assert(so.take(i0 + 1).drop_last() =~= so.take(i0));
                assert(so.take(i0 + 1).last() == ck);
            }
//@LOOPEND 1
            proof {
                // a counter's value is the content of ITS atomic when the snapshot reads it
                if ck.0 is Counter && counters@.contains_key(ck.1) {
                    assert(snapshot@.last().3 == DebugValue::Counter(counters@[ck.1].now()));
                }
                if registered(ck, counters@, gauges@, histograms@) {
                    assert(snapshot@.len() == snap0.len() + 1 && snapshot@.last().0 == ck);
                    assert(keys_of(snapshot@) =~= keys_of(snap0).push(ck));
                } else {
                    assert(snapshot@ == snap0);
                }
            }
//@BEFORE 1 Snapshot(snapshot)
        // every registered metric, none that was only described, in order of first registration
        proof { assert(so.take(so.len() as int) =~= so); assert(keys_of(snapshot@) == emitted(so, counters@, gauges@, histograms@)); }
//@END
}

impl DebuggingRecorder {
//@ITEM file=metrics-util/src/debugging.rs sel=impl DebuggingRecorder :: fn describe_metric
//@AFTER 1 let mut metadata = self.inner.metadata.lock()
        let ghost m0 = (*mguarded(&metadata))@;
        let ghost o0 = (*mguarded(&metadata)).order();
//@BODYEND
        // unit and description are the most recent ones given for this (kind, name); a description WITHOUT a unit keeps the
        // earlier unit; no other entry changes; the order of first description is kept
        proof {
            let m1 = (*mguarded(&metadata))@;
            let unit1 = if unit is Some { unit } else if m0.contains_key(rkey) { m0[rkey].0 } else { None::<Unit> };
            assert(m1 == m0.insert(rkey, (unit1, desc)));
        }
//@END

    pub uninterp spec fn may_track(&self, ck: CompositeKey) -> bool;
//@ITEM file=metrics-util/src/debugging.rs sel=impl DebuggingRecorder :: fn track_metric
//@SPEC
    requires self.may_track(ckey),      // which (kind, key) the caller is entitled to track (fixed by the caller's own contract)
//@AFTER 1 let mut seen = self.inner.seen.lock()
        let ghost s0 = *mguarded(&seen);
//@AFTER 1 seen.insert(ckey, ());
        // order of FIRST registration: a key already seen keeps its place, a new one goes last
        proof {
            let s1 = *mguarded(&seen);
            assert(s1@.contains_key(ckey));
            assert(s0@.contains_key(ckey) ==> s1.order() == s0.order());
            assert(!s0@.contains_key(ckey) ==> s1.order() == s0.order().push(ckey));
        }
//@END

// `impl Recorder for DebuggingRecorder :: register_*` verified as inherent methods: the handle handed out is backed by THIS kind's
// storage for the key, and the key is tracked under THIS kind (obligation at the tracking call)
//@ITEM file=metrics-util/src/debugging.rs sel=impl Recorder for DebuggingRecorder :: fn register_counter ret=r
//@REWRITE SPEC-closure re:\|(\w+)\| Counter::from_arc\(\1\.clone\(\)\) ==> |\1: &Arc<AtomicCell>| -> (out: Counter) ensures out.cell() == *\1 { Counter::from_arc(\1.clone()) }
//@SPEC
    requires forall|ck: CompositeKey| #[trigger] self.may_track(ck) <==> ck == CompositeKey(MetricKind::Counter, *key),
    ensures r.cell() == self.inner.registry.counter_storage(*key),
//@END
//@ITEM file=metrics-util/src/debugging.rs sel=impl Recorder for DebuggingRecorder :: fn register_gauge ret=r
//@REWRITE SPEC-closure re:\|(\w+)\| Gauge::from_arc\(\1\.clone\(\)\) ==> |\1: &Arc<AtomicCell>| -> (out: Gauge) ensures out.cell() == *\1 { Gauge::from_arc(\1.clone()) }
//@SPEC
    requires forall|ck: CompositeKey| #[trigger] self.may_track(ck) <==> ck == CompositeKey(MetricKind::Gauge, *key),
    ensures r.cell() == self.inner.registry.gauge_storage(*key),
//@END
//@ITEM file=metrics-util/src/debugging.rs sel=impl Recorder for DebuggingRecorder :: fn register_histogram ret=r
//@REWRITE SPEC-closure re:\|(\w+)\| Histogram::from_arc\(\1\.clone\(\)\) ==> |\1: &Arc<Bucket>| -> (out: Histogram) ensures out.cell() == *\1 { Histogram::from_arc(\1.clone()) }
//@SPEC
    requires forall|ck: CompositeKey| #[trigger] self.may_track(ck) <==> ck == CompositeKey(MetricKind::Histogram, *key),
    ensures r.cell() == self.inner.registry.histogram_storage(*key),
//@END
}

} // verus!
// trait impls the std containers demand of the key stubs (outside verus!: external, never executed by the verifier)
impl PartialEq for Key { fn eq(&self, _: &Key) -> bool { unimplemented!() } }
impl Eq for Key {}
impl std::hash::Hash for Key { fn hash<H: std::hash::Hasher>(&self, _: &mut H) { unimplemented!() } }
fn main() {}
