PLAN = {
    "property": "C19",
    "level": "proof",
    "manifest": {
        "technique": "Verus (z3) on debugging.rs functions extracted verbatim (describe_metric, track_metric, Snapshotter::snapshot, CompositeKey accessors) over ASSUMED specifications of indexmap::IndexMap, std Mutex/HashMap and the registry listing",
        "text": "Partly claimed. Proved for any recorder state (the lock hands out an arbitrary map) and any number of metrics: describe_metric leaves (most recent description, unit := given unit if any else the EARLIER unit) for that (kind, name) and changes no other entry; track_metric keeps a key already seen in place and appends a new one (order of first registration); snapshot lists exactly the seen keys that are registered in the registry listing of their kind -- none that was only described -- in order of first registration, and a counter's value is the content of that key's atomic at the read.",
        "note": "ASSUMED: IndexMap (insert keeps the position of an existing key, entry/or_insert, get, clone, insertion-order iteration), std Mutex never poisoned and arbitrary content at acquisition, vstd HashMap::get with Key's Hash/Eq consistent (C03), registry get_*_handles (C06), AtomicBucket::clear_with hands out each value once (C05's scope; R17 shim). NOT decided: gauge/histogram VALUE contents beyond the shim (closures without annotations), concurrent updates during a snapshot, thread-locality of local recorders (C01).",
    },
    "min_obligations": {"quick": 8, "thorough": 8},
    "assumptions": [
        "indexmap::IndexMap as a stub: view (order of first insertion, map); insert/entry/or_insert/get/clone/into_iter as documented by indexmap",
        "std Mutex: lock() never returns a poison error; protected value arbitrary at acquisition",
        "obeys_key_model::<Key>() (C03); Registry::get_*_handles is the registry's listing (C06)",
        "R17 shim for `h.clear_with(|xs| values.extend(..))`, R18 `.into()` -> `T::from(..)`, R13 closure tuple pattern, SPEC-closure annotation on the counter closure; R2 loop desugaring over the IndexMap iterator stub",
        "metrics::{Key, KeyName, Unit, SharedString}, ordered_float::OrderedFloat are opaque stubs",
    ],
    # plain tests on the real crate, run only when the named obligation failed (replay) or was demoted to undecided by the
    # closure / lost-ghost rule (then a failing witness confirms the violation, see DESIGN 0.2)
    "witnesses": [
        {"match": r"fn describe_metric", "src": "witness_unit_kept.rs", "crate": "metrics-util", "file": "metrics-util/src/debugging.rs"},
        {"match": r"Snapshotter :: fn snapshot", "src": "witness_registered_listed.rs", "crate": "metrics-util", "file": "metrics-util/src/debugging.rs"},
    ],
    "verus": [
        {"template": "debugging.verus.rs", "tier": "quick", "rlimit": 60, "min_functions": 8},
    ],
}
