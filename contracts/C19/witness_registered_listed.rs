// Hand-derived from the contract clause of `Snapshotter::snapshot` ("lists every metric that has been registered ... in order of
// first registration", whether or not it holds values at that moment): one concrete run on the real crate.
use super::*;
use metrics::{Key, Level, Metadata, Recorder};

#[test]
fn registered_metrics_are_listed_even_when_idle() {
    static M: Metadata<'static> = Metadata::new("w", Level::INFO, None);
    let rec = DebuggingRecorder::new();
    let snap = rec.snapshotter();
    let _c = rec.register_counter(&Key::from_name("a"), &M);
    let h = rec.register_histogram(&Key::from_name("b"), &M);
    let _g = rec.register_gauge(&Key::from_name("c"), &M);
    let names = |s: Snapshot| s.into_vec().into_iter().map(|(k, _, _, _)| k.key().name().to_string()).collect::<Vec<_>>();
    assert_eq!(names(snap.snapshot()), vec!["a", "b", "c"], "never-updated metrics are listed");
    h.record(1.0);
    let v = snap.snapshot().into_vec();
    assert!(matches!(&v[1].3, DebugValue::Histogram(xs) if xs.len() == 1));
    assert_eq!(names(snap.snapshot()), vec!["a", "b", "c"], "a drained histogram is still listed");
    // "exactly the values recorded since the previous snapshot, each value in exactly one snapshot" -- with more values than
    // one storage block holds, in recording order
    for i in 0..150 { h.record(i as f64); }
    let v = snap.snapshot().into_vec();
    match &v[1].3 {
        DebugValue::Histogram(xs) => {
            let got: Vec<f64> = xs.iter().map(|x| x.into_inner()).collect();
            let mut sorted = got.clone();
            sorted.sort_by(|a, b| a.partial_cmp(b).unwrap());
            assert_eq!(sorted, (0..150).map(|i| i as f64).collect::<Vec<_>>(), "all 150 values, each once");
        }
        other => panic!("not a histogram: {other:?}"),
    }
    assert!(matches!(&snap.snapshot().into_vec()[1].3, DebugValue::Histogram(xs) if xs.is_empty()), "and none of them a second time");
}
