// Hand-derived from the contract clause of `describe_metric/ensures` ("a later description without a unit keeps the earlier
// unit; the description is the most recent one"): one concrete run of that clause on the real crate.
use super::*;
use metrics::{Key, Level, Metadata, Recorder, Unit};

#[test]
fn later_description_without_unit_keeps_earlier_unit() {
    static M: Metadata<'static> = Metadata::new("w", Level::INFO, None);
    let rec = DebuggingRecorder::new();
    let snap = rec.snapshotter();
    rec.describe_gauge("g".into(), Some(Unit::Seconds), "first".into());
    rec.describe_gauge("g".into(), None, "second".into());
    let _g = rec.register_gauge(&Key::from_name("g"), &M);
    let v = snap.snapshot().into_vec();
    assert_eq!(v.len(), 1);
    assert_eq!(v[0].1, Some(Unit::Seconds), "the earlier unit must be kept");
    assert_eq!(v[0].2.as_ref().map(|s| s.as_ref()), Some("second"), "the description must be the most recent one");
}
