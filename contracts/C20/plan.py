def H(name, clause, kind="complete", tier="quick", timeout=600, replay=True, covers=0, **kw):
    d = dict(name=name, obligation=f"C20/kani/{name}", clause=clause, kind=kind, tier=tier, timeout=timeout, replay=replay, covers=covers)
    d.update(kw)
    return d

SRC = "metrics-util/src/recoverable.rs"

PLAN = {
    "property": "C20",
    "level": "proof",
    "manifest": {
        "technique": "Kani/CBMC on the real WeakRecorder / RecoveryHandle / RecoverableRecorder with a recording double (call log, argument identity, strong count during the call, drop counter, finalised flag); real std Arc/Weak and the real metrics global-recorder cell are executed; interleavings reduced to Arc's contract (assumed) plus a rely/guarantee stub on the strong-count CAS inside Arc::try_unwrap for the into_inner loop",
        "text": "Sequential contracts discharged by CBMC over a symbolic operation (all six Recorder methods), symbolic argument choice and symbolic update value: handle alive => exactly one call enters the wrapped recorder with identical arguments (pointer-identical name/description/key/metadata, equal unit), the handle it returns is the one given to the caller, the emission holds a second strong reference while inside (strong == 2) and has released it at return; into_inner returns the original recorder un-finalised, it is finalised exactly once when the caller drops it; after into_inner or after dropping the handle no call enters the recorder, register_* yield inert handles, and the recorder is never finalised twice; install on a fresh process makes the global recorder forward to it; install with an existing global recorder (real set_global_recorder executed) returns the original recorder intact inside SetRecorderError and leaves the first global in place. The schedule clauses ('only when no emission is executing', 'no call enters after finalisation began') follow from these contracts plus Arc's contract, which is assumed, and the rely/guarantee harness showing the into_inner loop exits exactly at the first successful try_unwrap.",
        "note": "Interleavings are not executed: they rest on std Arc/Weak (upgrade fails once strong == 0; try_unwrap succeeds only for the sole strong owner, atomically) -- ASSUMED, sanity-checked sequentially on the real Arc. into_inner retry loop checked for <= 3 failed attempts (bounded; iterations are identical). SC atomics; panic unwinding inside the wrapped recorder not modelled.",
    },
    "min_obligations": {"quick": 7, "thorough": 7},
    "assumptions": [
        "std Arc/Weak contract (ASSUMED, not re-verified): Weak::upgrade returns None once the strong count has reached 0 and otherwise yields a strong reference that keeps the value alive; Arc::try_unwrap returns Ok only when called by the sole strong owner and does so atomically w.r.t. concurrent upgrade; Drop of the last strong reference drops the value exactly once",
        "every interleaving clause of the statement (emitting threads racing into_inner / handle drop) is derived from the sequential contracts plus the Arc contract above; no concurrent schedule is executed (Kani has no threads)",
        "c20_into_inner_vs_starting_emissions_rg: stubs on Atomic<usize>::{compare_exchange, load} restricted to the strong count of the handle's Arc (address = data pointer - 2 words: ArcInner layout, asserted by reading 1 there); Weak::upgrade is modelled by its effect (strong += 1, a real Arc<Rec> made with Arc::from_raw); bounded: <= 1 in flight at entry, <= 2 starts",
        "c20_into_inner_retry_rg runs the real Arc::try_unwrap with n <= 3 real upgraded references parked as in-flight emissions; only its RMW (compare_exchange on the strong count) is stubbed, with std semantics plus interference: one emission finishes after each failed attempt; the loop body is state-free apart from the Arc, so each retry is identical",
        "the wrapped recorder is a recording double (Rec); WeakRecorder is parametric in R: Recorder (no R-specific branches)",
        "arguments are chosen among two static names (one empty), two descriptions, four unit options, one static key/metadata; identity is checked by pointer+length, so no string content is interpreted",
        "metrics::set_global_recorder / RecorderOnceCell are executed as they are (their own contract is property C02)",
        "a panic inside the wrapped recorder (unwinding through the upgraded Arc) is not modelled; panic = failure",
    ],
    "kani": [{
        "crate": "metrics-util",
        "parallel": 4,
        "modules": [{"file": SRC, "mod": "__verif_c20", "src": "recoverable.kani.rs"}],
        "functions": [
            {"item": "impl Recorder for WeakRecorder<R> :: {describe_counter, describe_gauge, describe_histogram, register_counter, register_gauge, register_histogram}", "file": SRC},
            {"item": "WeakRecorder::from_arc", "file": SRC},
            {"item": "RecoveryHandle::into_inner", "file": SRC},
            {"item": "RecoverableRecorder::{new, build, install}", "file": SRC},
        ],
        "harnesses": [
            H("c20_weak_live", "handle alive: each of the 6 methods => exactly one call enters the wrapped recorder, same op, identical arguments, returned handle is the inner one; strong == 2 during the call and == 1 (weak == 1) at return", covers=2),
            H("c20_weak_live_busy", "as c20_weak_live with 1 or 2 other emissions in flight (parked upgraded references): the emission still enters exactly once, strong == 2 + k during the call, back to 1 afterwards", covers=1),
            H("c20_after_into_inner", "into_inner returns the original recorder, drop counter 0 at return, 1 after the caller drops it; afterwards all 6 methods are inert (no call enters, inert handles), never finalised twice", covers=2),
            H("c20_after_handle_drop", "dropping the handle finalises the recorder exactly once; later calls through the wrapper are inert; no call enters after finalisation began", covers=2),
            H("c20_install_ok", "install without a global: Ok; emissions through the global recorder reach the wrapped recorder once with identical arguments; inert after into_inner", covers=2),
            H("c20_install_existing", "install with an existing global (real set_global_recorder): Err carries the original recorder intact (same id, not finalised, usable), first global still in place, finalised once when dropped", covers=2),
            H("c20_arc_contract_sanity", "real Arc, sequential: try_unwrap fails and returns the same Arc while an upgraded reference exists, succeeds after its release, upgrade() is None afterwards"),
            H("c20_into_inner_retry_rg", "into_inner loop with n real in-flight emissions released one per failed attempt (stub on the strong-count CAS): retries on the same Arc, every attempt while an emission is inside fails, exits exactly at the first attempt seeing strong == 1 (n+1 attempts), returns the original recorder un-finalised",
              kind="bounded", bound="n <= 3 in-flight emissions", replay=False, covers=2, sub="rg"),
            H("c20_into_inner_vs_starting_emissions_rg", "into_inner against an environment that may also START emissions (Weak::upgrade) after any load of the strong count and before any try_unwrap attempt, and finishes one after a failed attempt: never panics, terminates, the successful CAS sees strong == 1 with no emission inside, recorder returned un-finalised (a check-then-act wait on strong_count breaks here)",
              kind="bounded", bound="<= 1 emission in flight at entry, <= 2 started during the wait", replay=False, covers=2, sub="rg", timeout=900),
        ],
    }],
}
