// C20 -- contracts on the real RecoveryHandle / RecoverableRecorder / WeakRecorder of
// metrics-util/src/recoverable.rs (module appended to that file: private items are visible).
//
// A recording double `Rec` logs every call that ENTERS it into process-wide statics (they outlive the
// recorder), records the strong count of the owning Arc while a call is executing inside it, and sets
// FINALISED / counts DROPS in its destructor.  Any call entering after finalisation began is counted
// in LATE_CALLS.
//
// Interleavings are NOT executed (Kani is sequential).  They rest on Arc's contract, ASSUMED:
//   A1 Weak::upgrade returns None once the strong count reached 0, otherwise a strong reference
//      that keeps the value alive; A2 Arc::try_unwrap succeeds only for the sole strong owner, atomically.
// With A1/A2 the sequential contracts below give the schedule clauses: an emission executing inside the
// recorder holds an upgraded strong reference (c20_weak_live: strong == 2 during the call) => try_unwrap
// fails (A2) => into_inner keeps looping (c20_into_inner_retry_rg); after into_inner / handle drop the
// strong count is 0 => upgrade is None (A1) => the call is inert (c20_after_*).
use super::*;
use core::sync::atomic::{AtomicU32 as A32, AtomicUsize as AUZ, Ordering as O};
use metrics::{CounterFn, GaugeFn, HistogramFn, Level};

static CALLS: A32 = A32::new(0); // calls that entered the recorder
static LATE_CALLS: A32 = A32::new(0); // calls that entered after its finalisation began
static LAST_OP: A32 = A32::new(0);
static LAST_NAME_PTR: AUZ = AUZ::new(0);
static LAST_NAME_LEN: AUZ = AUZ::new(0);
static LAST_UNIT: A32 = A32::new(0);
static LAST_DESC_PTR: AUZ = AUZ::new(0);
static LAST_DESC_LEN: AUZ = AUZ::new(0);
static LAST_KEY_PTR: AUZ = AUZ::new(0);
static LAST_META_PTR: AUZ = AUZ::new(0);
static STRONG_IN_CALL: AUZ = AUZ::new(0);
static OWNER: AUZ = AUZ::new(0); // address of the Arc<Rec> field owning the recorder (0 = unknown)
static DROPS: A32 = A32::new(0);
static FINALISED: A32 = A32::new(0);
static UPDATES: A32 = A32::new(0); // updates through handles the recorder handed out
static LAST_UPDATE: AUZ = AUZ::new(0);

struct Sink;
impl CounterFn for Sink {
    fn increment(&self, v: u64) { UPDATES.fetch_add(1, O::SeqCst); LAST_UPDATE.store(v as usize, O::SeqCst); }
    fn absolute(&self, v: u64) { UPDATES.fetch_add(1, O::SeqCst); LAST_UPDATE.store(v as usize, O::SeqCst); }
}
impl GaugeFn for Sink {
    fn increment(&self, v: f64) { UPDATES.fetch_add(1, O::SeqCst); LAST_UPDATE.store(v.to_bits() as usize, O::SeqCst); }
    fn decrement(&self, v: f64) { UPDATES.fetch_add(1, O::SeqCst); LAST_UPDATE.store(v.to_bits() as usize, O::SeqCst); }
    fn set(&self, v: f64) { UPDATES.fetch_add(1, O::SeqCst); LAST_UPDATE.store(v.to_bits() as usize, O::SeqCst); }
}
impl HistogramFn for Sink {
    fn record(&self, v: f64) { UPDATES.fetch_add(1, O::SeqCst); LAST_UPDATE.store(v.to_bits() as usize, O::SeqCst); }
}

fn unit_code(u: Option<Unit>) -> u32 {
    match u {
        None => 0,
        Some(u) => 1 + u as u32,
    }
}

#[derive(Debug)]
struct Rec {
    id: u32,
}
impl Rec {
    fn enter(&self, op: u32) {
        CALLS.fetch_add(1, O::SeqCst);
        if FINALISED.load(O::SeqCst) != 0 {
            LATE_CALLS.fetch_add(1, O::SeqCst);
        }
        LAST_OP.store(op, O::SeqCst);
        let owner = OWNER.load(O::SeqCst);
        if owner != 0 {
            // strong count of the owning Arc while the call executes inside the recorder
            let arc = unsafe { &*(owner as *const Arc<Rec>) };
            STRONG_IN_CALL.store(Arc::strong_count(arc), O::SeqCst);
        }
    }
    fn describe(&self, op: u32, key: KeyName, unit: Option<Unit>, description: SharedString) {
        self.enter(op);
        LAST_NAME_PTR.store(key.as_str().as_ptr() as usize, O::SeqCst);
        LAST_NAME_LEN.store(key.as_str().len(), O::SeqCst);
        LAST_UNIT.store(unit_code(unit), O::SeqCst);
        LAST_DESC_PTR.store(description.as_ptr() as usize, O::SeqCst);
        LAST_DESC_LEN.store(description.len(), O::SeqCst);
    }
    fn register(&self, op: u32, key: &Key, metadata: &Metadata<'_>) {
        self.enter(op);
        LAST_KEY_PTR.store(key as *const Key as usize, O::SeqCst);
        LAST_META_PTR.store(metadata as *const Metadata<'_> as usize, O::SeqCst);
    }
}
impl Recorder for Rec {
    fn describe_counter(&self, key: KeyName, unit: Option<Unit>, description: SharedString) { self.describe(1, key, unit, description) }
    fn describe_gauge(&self, key: KeyName, unit: Option<Unit>, description: SharedString) { self.describe(2, key, unit, description) }
    fn describe_histogram(&self, key: KeyName, unit: Option<Unit>, description: SharedString) { self.describe(3, key, unit, description) }
    fn register_counter(&self, key: &Key, metadata: &Metadata<'_>) -> Counter {
        self.register(4, key, metadata);
        Counter::from_arc(Arc::new(Sink))
    }
    fn register_gauge(&self, key: &Key, metadata: &Metadata<'_>) -> Gauge {
        self.register(5, key, metadata);
        Gauge::from_arc(Arc::new(Sink))
    }
    fn register_histogram(&self, key: &Key, metadata: &Metadata<'_>) -> Histogram {
        self.register(6, key, metadata);
        Histogram::from_arc(Arc::new(Sink))
    }
}
impl Drop for Rec {
    fn drop(&mut self) {
        FINALISED.store(1, O::SeqCst);
        DROPS.fetch_add(1, O::SeqCst);
    }
}

static NAME_A: &str = "requests.total";
static NAME_B: &str = "";
static DESC_A: &str = "number of requests";
static DESC_B: &str = ""; // the empty description (together with unit None: "nothing to say" must still be forwarded)
static KEY: Key = Key::from_static_name("requests.total");
static META: Metadata<'static> = Metadata::new("target", Level::INFO, Some("module"));

fn unit_of(sel: u8) -> Option<Unit> {
    match sel % 4 {
        0 => None,
        1 => Some(Unit::Count),
        2 => Some(Unit::Bytes),
        _ => Some(Unit::Seconds),
    }
}

/// One emission `op` (1..=6) through `r`; for the register ops the returned handle is used once with `v`.
fn emit<R: Recorder + ?Sized>(r: &R, op: u8, which: bool, usel: u8, v: u64) {
    emit_opt(r, op, which, usel, v, true)
}
/// `use_handle == false`: the handle returned by a register op is dropped unused.
fn emit_opt<R: Recorder + ?Sized>(r: &R, op: u8, which: bool, usel: u8, v: u64, use_handle: bool) {
    if !use_handle && op >= 4 {
        match op {
            4 => drop(r.register_counter(&KEY, &META)),
            5 => drop(r.register_gauge(&KEY, &META)),
            _ => drop(r.register_histogram(&KEY, &META)),
        }
        return;
    }
    let name = if which { NAME_A } else { NAME_B };
    let desc = if which { DESC_A } else { DESC_B };
    match op {
        1 => r.describe_counter(KeyName::from_const_str(name), unit_of(usel), SharedString::const_str(desc)),
        2 => r.describe_gauge(KeyName::from_const_str(name), unit_of(usel), SharedString::const_str(desc)),
        3 => r.describe_histogram(KeyName::from_const_str(name), unit_of(usel), SharedString::const_str(desc)),
        4 => r.register_counter(&KEY, &META).increment(v),
        5 => r.register_gauge(&KEY, &META).set(f64::from_bits(v)),
        _ => r.register_histogram(&KEY, &META).record(f64::from_bits(v)),
    }
}

/// Describe operations only (op in 1..=3), for calls through an unresolved `&dyn Recorder`: CBMC explores every
/// syntactic arm, so the register arms of `emit` must not even be present behind such a reference.
fn emit_describe(r: &dyn Recorder, op: u8, which: bool, usel: u8) {
    let name = if which { NAME_A } else { NAME_B };
    let desc = if which { DESC_A } else { DESC_B };
    match op {
        1 => r.describe_counter(KeyName::from_const_str(name), unit_of(usel), SharedString::const_str(desc)),
        2 => r.describe_gauge(KeyName::from_const_str(name), unit_of(usel), SharedString::const_str(desc)),
        _ => r.describe_histogram(KeyName::from_const_str(name), unit_of(usel), SharedString::const_str(desc)),
    }
}

/// The call that entered the recorder last is exactly `op` with the arguments `emit` passed.
fn assert_last_call_is(op: u8, which: bool, usel: u8, v: u64) {
    assert_last_call_is_opt(op, which, usel, v, true)
}
fn assert_last_call_is_opt(op: u8, which: bool, usel: u8, v: u64, used_handle: bool) {
    assert!(LAST_OP.load(O::SeqCst) == op as u32);
    if op <= 3 {
        let name = if which { NAME_A } else { NAME_B };
        let desc = if which { DESC_A } else { DESC_B };
        assert!(LAST_NAME_PTR.load(O::SeqCst) == name.as_ptr() as usize && LAST_NAME_LEN.load(O::SeqCst) == name.len());
        assert!(LAST_DESC_PTR.load(O::SeqCst) == desc.as_ptr() as usize && LAST_DESC_LEN.load(O::SeqCst) == desc.len());
        assert!(LAST_UNIT.load(O::SeqCst) == unit_code(unit_of(usel)));
        assert!(UPDATES.load(O::SeqCst) == 0);
    } else {
        assert!(LAST_KEY_PTR.load(O::SeqCst) == &KEY as *const Key as usize);
        assert!(LAST_META_PTR.load(O::SeqCst) == &META as *const Metadata<'static> as usize);
        if used_handle {
            // the handle returned to the caller is the one the wrapped recorder produced
            assert!(UPDATES.load(O::SeqCst) == 1 && LAST_UPDATE.load(O::SeqCst) == v as usize);
        } else {
            assert!(UPDATES.load(O::SeqCst) == 0);
        }
    }
}

fn op_of(op: u8) -> u8 {
    1 + op % 6
}

// ---------------------------------------------------------------------------------------------
// WeakRecorder x6, handle alive (upgrade() is Some): the wrapped recorder receives exactly one call, the
// same operation with identical arguments; while the call executes the emission holds a second strong
// reference (strong == 2), and it is released before the wrapper method returns (strong == 1, weak == 1).
pub fn c20_weak_live_body(op: u8, which: bool, usel: u8, v: u64) {
    let op = op_of(op);
    let (wrapped, handle) = RecoverableRecorder::new(Rec { id: 7 }).build();
    OWNER.store(&handle.handle as *const Arc<Rec> as usize, O::SeqCst);
    assert!(Arc::strong_count(&handle.handle) == 1 && Arc::weak_count(&handle.handle) == 1);
    emit(&wrapped, op, which, usel, v);
    assert!(CALLS.load(O::SeqCst) == 1);
    assert_last_call_is(op, which, usel, v);
    assert!(STRONG_IN_CALL.load(O::SeqCst) == 2);
    assert!(Arc::strong_count(&handle.handle) == 1 && Arc::weak_count(&handle.handle) == 1);
    assert!(DROPS.load(O::SeqCst) == 0 && LATE_CALLS.load(O::SeqCst) == 0);
    kani::cover!(op == 1 && which);
    kani::cover!(op == 6 && !which);
    OWNER.store(0, O::SeqCst);
    // recover: original recorder, not finalised, finalised exactly once when the caller drops it
    let rec = handle.into_inner();
    assert!(rec.id == 7 && DROPS.load(O::SeqCst) == 0);
    drop(rec);
    assert!(DROPS.load(O::SeqCst) == 1 && LATE_CALLS.load(O::SeqCst) == 0);
}
#[cfg(kani)]
#[kani::proof]
#[kani::unwind(3)]
fn c20_weak_live() {
    c20_weak_live_body(kani::any(), kani::any(), kani::any(), kani::any());
}

// ---------------------------------------------------------------------------------------------
// The same while OTHER emissions are in flight: each of them holds an upgraded strong reference for the duration of its call
// (k = 1 or 2 parked references). "While the handle is alive every emission reaches the wrapped recorder" does not depend on how
// many emitters are inside the recorder at the moment.
pub fn c20_weak_live_busy_body(op: u8, which: bool, usel: u8, v: u64, two: bool) {
    let op = op_of(op);
    let (wrapped, handle) = RecoverableRecorder::new(Rec { id: 7 }).build();
    OWNER.store(&handle.handle as *const Arc<Rec> as usize, O::SeqCst);
    let p1 = handle.handle.clone();
    let p2 = if two { Some(handle.handle.clone()) } else { None };
    let k: usize = if two { 2 } else { 1 };
    emit(&wrapped, op, which, usel, v);
    assert!(CALLS.load(O::SeqCst) == 1, "the emission enters the wrapped recorder whatever else is in flight");
    assert_last_call_is(op, which, usel, v);
    assert!(STRONG_IN_CALL.load(O::SeqCst) == 2 + k);
    drop(p1);
    drop(p2);
    assert!(Arc::strong_count(&handle.handle) == 1 && Arc::weak_count(&handle.handle) == 1);
    assert!(DROPS.load(O::SeqCst) == 0 && LATE_CALLS.load(O::SeqCst) == 0);
    kani::cover!(two && op == 2);
    OWNER.store(0, O::SeqCst);
    let rec = handle.into_inner();
    assert!(rec.id == 7 && DROPS.load(O::SeqCst) == 0);
    drop(rec);
    assert!(DROPS.load(O::SeqCst) == 1 && LATE_CALLS.load(O::SeqCst) == 0);
}
#[cfg(kani)]
#[kani::proof]
#[kani::unwind(3)]
fn c20_weak_live_busy() {
    c20_weak_live_busy_body(kani::any(), kani::any(), kani::any(), kani::any(), kani::any());
}

// ---------------------------------------------------------------------------------------------
// into_inner with no emission in flight: returns after the first successful try_unwrap with the
// ORIGINAL recorder (same id, same value), not finalised (drop counter 0); 1 after the caller drops it.
// Afterwards (upgrade() is None) every one of the six operations through the wrapper is inert: no call
// enters the recorder, register_* yield handles whose updates go nowhere, nothing panics, and the
// recorder is never finalised a second time.
pub fn c20_after_into_inner_body(id: u32, op1: u8, op2: u8, which: bool, usel: u8, v: u64, drop_first: bool) {
    let (op1, op2) = (op_of(op1), op_of(op2));
    let (wrapped, handle) = RecoverableRecorder::new(Rec { id }).build();
    emit(&wrapped, op1, which, usel, v); // live before recovery
    assert!(CALLS.load(O::SeqCst) == 1);
    let updates_before = UPDATES.load(O::SeqCst);
    let rec = handle.into_inner();
    assert!(rec.id == id);
    assert!(DROPS.load(O::SeqCst) == 0 && FINALISED.load(O::SeqCst) == 0);
    if drop_first {
        drop(rec);
        assert!(DROPS.load(O::SeqCst) == 1);
        emit(&wrapped, op2, !which, usel, v);
    } else {
        emit(&wrapped, op2, !which, usel, v);
        assert!(DROPS.load(O::SeqCst) == 0);
        drop(rec);
        assert!(DROPS.load(O::SeqCst) == 1);
    }
    // inert: nothing entered, no update delivered, one finalisation, none late
    assert!(CALLS.load(O::SeqCst) == 1);
    assert!(UPDATES.load(O::SeqCst) == updates_before);
    assert!(LATE_CALLS.load(O::SeqCst) == 0);
    drop(wrapped);
    assert!(DROPS.load(O::SeqCst) == 1);
    kani::cover!(op2 == 2 && drop_first);
    kani::cover!(op2 == 4 && !drop_first);
}
#[cfg(kani)]
#[kani::proof]
#[kani::unwind(3)]
fn c20_after_into_inner() {
    c20_after_into_inner_body(kani::any(), kani::any(), kani::any(), kani::any(), kani::any(), kani::any(), kani::any());
}

// ---------------------------------------------------------------------------------------------
// Dropping the handle instead of recovering: the recorder is finalised exactly once, at that point,
// and every later operation through the wrapper is inert (no call enters after finalisation began).
pub fn c20_after_handle_drop_body(op1: u8, op2: u8, which: bool, usel: u8, v: u64) {
    let (op1, op2) = (op_of(op1), op_of(op2));
    let (wrapped, handle) = RecoverableRecorder::new(Rec { id: 1 }).build();
    emit(&wrapped, op1, which, usel, v);
    assert!(CALLS.load(O::SeqCst) == 1 && DROPS.load(O::SeqCst) == 0);
    assert_last_call_is(op1, which, usel, v);
    let updates_before = UPDATES.load(O::SeqCst);
    drop(handle);
    assert!(DROPS.load(O::SeqCst) == 1);
    emit(&wrapped, op2, which, usel, v);
    emit(&wrapped, op1, !which, usel, v);
    assert!(CALLS.load(O::SeqCst) == 1);
    assert!(UPDATES.load(O::SeqCst) == updates_before);
    assert!(LATE_CALLS.load(O::SeqCst) == 0);
    drop(wrapped);
    assert!(DROPS.load(O::SeqCst) == 1);
    kani::cover!(op1 == 5 && op2 == 1);
    kani::cover!(op1 == 3 && op2 == 6);
}
#[cfg(kani)]
#[kani::proof]
#[kani::unwind(3)]
fn c20_after_handle_drop() {
    c20_after_handle_drop_body(kani::any(), kani::any(), kani::any(), kani::any(), kani::any());
}

// ---------------------------------------------------------------------------------------------
// Sanity of the ASSUMED Arc contract on the real std Arc, sequentially: while an upgraded strong
// reference exists (an emission is inside the recorder) try_unwrap fails and hands the same Arc back
// without finalising; once it is released try_unwrap succeeds; afterwards upgrade() is None.
pub fn c20_arc_contract_sanity_body(id: u32) {
    let (wrapped, handle) = RecoverableRecorder::new(Rec { id }).build();
    let in_flight = wrapped.recorder.upgrade();
    assert!(in_flight.is_some());
    let addr = Arc::as_ptr(&handle.handle) as usize;
    match Arc::try_unwrap(handle.handle) {
        Ok(_) => assert!(false),
        Err(same) => {
            assert!(Arc::as_ptr(&same) as usize == addr && DROPS.load(O::SeqCst) == 0);
            drop(in_flight);
            assert!(DROPS.load(O::SeqCst) == 0);
            match Arc::try_unwrap(same) {
                Ok(rec) => {
                    assert!(rec.id == id && DROPS.load(O::SeqCst) == 0);
                    assert!(wrapped.recorder.upgrade().is_none());
                    drop(rec);
                }
                Err(_) => assert!(false),
            }
        }
    }
    assert!(DROPS.load(O::SeqCst) == 1);
}
#[cfg(kani)]
#[kani::proof]
#[kani::unwind(3)]
fn c20_arc_contract_sanity() {
    c20_arc_contract_sanity_body(kani::any());
}

// ---------------------------------------------------------------------------------------------
// install() on a process without a global recorder: Ok(handle); every emission through the GLOBAL
// recorder (metrics::with_recorder => the installed wrapper) reaches the wrapped recorder exactly once
// with identical arguments while the handle is alive; after into_inner the global wrapper is inert.
// (Through the `&dyn Recorder` global only the three describe operations are symbolic, plus one concrete
// register_counter whose handle is leaked unused: Kani does not resolve the `dyn Recorder` target read back
// from the global cell, so a handle returned through it has an unresolved vtable and using or dropping it makes
// CBMC explore every CounterFn impl / drop glue of the build -- timeout, measured.  All six operations, and that
// the returned handle is the inner one, are covered on the wrapper itself by c20_weak_live.)
pub fn c20_install_ok_body(op1: u8, op2: u8, which: bool, usel: u8) {
    let (op1, op2) = (1 + op1 % 3, 1 + op2 % 3); // the three describe operations
    let handle = match RecoverableRecorder::new(Rec { id: 11 }).install() {
        Ok(h) => h,
        Err(_) => {
            assert!(false);
            return;
        }
    };
    assert!(Arc::strong_count(&handle.handle) == 1 && Arc::weak_count(&handle.handle) == 1);
    metrics::with_recorder(|r| emit_describe(r, op1, which, usel));
    assert!(CALLS.load(O::SeqCst) == 1);
    assert_last_call_is(op1, which, usel, 0);
    // one registration through the global recorder (handle leaked unused, see above)
    core::mem::forget(metrics::with_recorder(|r| r.register_counter(&KEY, &META)));
    assert!(CALLS.load(O::SeqCst) == 2 && LAST_OP.load(O::SeqCst) == 4);
    assert!(LAST_KEY_PTR.load(O::SeqCst) == &KEY as *const Key as usize);
    assert!(LAST_META_PTR.load(O::SeqCst) == &META as *const Metadata<'static> as usize);
    assert!(Arc::strong_count(&handle.handle) == 1);
    let rec = handle.into_inner();
    assert!(rec.id == 11 && DROPS.load(O::SeqCst) == 0);
    metrics::with_recorder(|r| emit_describe(r, op2, which, usel));
    core::mem::forget(metrics::with_recorder(|r| r.register_counter(&KEY, &META)));
    assert!(CALLS.load(O::SeqCst) == 2 && UPDATES.load(O::SeqCst) == 0);
    drop(rec);
    assert!(DROPS.load(O::SeqCst) == 1 && LATE_CALLS.load(O::SeqCst) == 0);
    metrics::with_recorder(|r| emit_describe(r, op1, which, usel));
    assert!(CALLS.load(O::SeqCst) == 2 && LATE_CALLS.load(O::SeqCst) == 0);
    kani::cover!(op1 == 3 && op2 == 1);
    kani::cover!(op1 == 2 && op2 == 2);
}
#[cfg(kani)]
#[kani::proof]
#[kani::unwind(3)]
fn c20_install_ok() {
    c20_install_ok_body(kani::any(), kani::any(), kani::any(), kani::any());
}

// ---------------------------------------------------------------------------------------------
// install() when a global recorder already exists (the real metrics::set_global_recorder / GLOBAL_RECORDER
// cell is executed): Err carries the ORIGINAL recorder intact -- same id, not finalised, no call entered
// it -- the rejected wrapper has been freed (weak count 0 is implied by into_inner having unwrapped the
// Arc), and the existing global recorder is still the one in place.
struct First;
static FIRST_CALLS: A32 = A32::new(0);
impl Recorder for First {
    fn describe_counter(&self, _: KeyName, _: Option<Unit>, _: SharedString) { FIRST_CALLS.fetch_add(1, O::SeqCst); }
    fn describe_gauge(&self, _: KeyName, _: Option<Unit>, _: SharedString) { FIRST_CALLS.fetch_add(1, O::SeqCst); }
    fn describe_histogram(&self, _: KeyName, _: Option<Unit>, _: SharedString) { FIRST_CALLS.fetch_add(1, O::SeqCst); }
    fn register_counter(&self, _: &Key, _: &Metadata<'_>) -> Counter { FIRST_CALLS.fetch_add(1, O::SeqCst); Counter::noop() }
    fn register_gauge(&self, _: &Key, _: &Metadata<'_>) -> Gauge { FIRST_CALLS.fetch_add(1, O::SeqCst); Gauge::noop() }
    fn register_histogram(&self, _: &Key, _: &Metadata<'_>) -> Histogram { FIRST_CALLS.fetch_add(1, O::SeqCst); Histogram::noop() }
}
pub fn c20_install_existing_body(id: u32, op: u8, which: bool, usel: u8, v: u64) {
    let op = op_of(op);
    assert!(metrics::set_global_recorder(First).is_ok());
    match RecoverableRecorder::new(Rec { id }).install() {
        Ok(_) => assert!(false),
        Err(e) => {
            assert!(DROPS.load(O::SeqCst) == 0 && CALLS.load(O::SeqCst) == 0);
            let rec: Rec = e.into_inner();
            assert!(rec.id == id);
            assert!(DROPS.load(O::SeqCst) == 0 && FINALISED.load(O::SeqCst) == 0);
            // the recorder handed back is fully usable
            emit(&rec, op, which, usel, v);
            assert!(CALLS.load(O::SeqCst) == 1);
            assert_last_call_is(op, which, usel, v);
            // the global recorder is still the first one
            metrics::with_recorder(|r| emit(r, op, which, usel, v));
            assert!(FIRST_CALLS.load(O::SeqCst) == 1 && CALLS.load(O::SeqCst) == 1);
            drop(rec);
            assert!(DROPS.load(O::SeqCst) == 1 && LATE_CALLS.load(O::SeqCst) == 0);
        }
    }
    kani::cover!(op == 1);
    kani::cover!(op == 6);
}
#[cfg(kani)]
#[kani::proof]
#[kani::unwind(3)]
fn c20_install_existing() {
    c20_install_existing_body(kani::any(), kani::any(), kani::any(), kani::any(), kani::any());
}

// ---------------------------------------------------------------------------------------------
// Rely/guarantee for the into_inner loop under interference: n <= 3 emissions are in flight (each holds a
// REAL upgraded strong reference, parked in HELD) when into_inner starts.  The real Arc::try_unwrap runs;
// its single RMW -- compare_exchange(1, 0) on the strong count -- is replaced by a stub with the std
// semantics that additionally lets one in-flight emission finish (drop its reference) after every failed
// attempt: "other threads run between two attempts".  Guarantee of the loop: it retries with the same Arc,
// every attempt made while an emission is in flight fails (strong > 1 seen), it returns exactly at the first
// attempt that sees strong == 1 (ATTEMPTS == n + 1, no emission left), returns the original recorder, and
// the recorder is not finalised on the way.
// bounded: n <= 3 (each iteration of the loop is identical: its only state is the Arc).
#[cfg(kani)]
mod rg {
    use super::*;
    pub static mut HELD: [Option<Arc<Rec>>; 3] = [None, None, None];
    pub static mut IN_FLIGHT: usize = 0;
    pub static mut ATTEMPTS: u32 = 0;
    pub static mut STRONG_CELL: usize = 0;
    pub static mut BAD: bool = false;

    pub fn compare_exchange_stub(a: &AUZ, current: usize, new: usize, _s: O, _f: O) -> Result<usize, usize> {
        unsafe {
            let p = a.as_ptr();
            if STRONG_CELL == 0 {
                STRONG_CELL = p as usize; // first attempt fixes the cell: every retry must hit the same Arc
            }
            if p as usize != STRONG_CELL || current != 1 || new != 0 {
                BAD = true;
            }
            ATTEMPTS += 1;
            let cur = *p;
            if cur != IN_FLIGHT + 1 {
                BAD = true; // strong == handle + one per emission still inside the recorder
            }
            if cur == current {
                *p = new;
                Ok(cur)
            } else {
                // interference: one emission finishes before the next attempt
                IN_FLIGHT -= 1;
                let e = HELD[IN_FLIGHT].take();
                drop(e);
                Err(cur)
            }
        }
    }

    /// `std::hint::spin_loop()` is a CPU hint (an unsupported intrinsic for Kani): a no-op for the logic
    pub fn spin_loop_stub() {}
    #[kani::proof]
    #[kani::unwind(6)]
    #[kani::stub(core::sync::atomic::Atomic::<usize>::compare_exchange, compare_exchange_stub)]
    #[kani::stub(core::hint::spin_loop, spin_loop_stub)]
    fn c20_into_inner_retry_rg() {
        let n: usize = kani::any();
        kani::assume(n <= 3);
        let id: u32 = kani::any();
        let (wrapped, handle) = RecoverableRecorder::new(Rec { id }).build();
        let mut i = 0;
        while i < n {
            let e = wrapped.recorder.upgrade();
            assert!(e.is_some());
            unsafe { HELD[i] = e };
            i += 1;
        }
        unsafe { IN_FLIGHT = n };
        assert!(Arc::strong_count(&handle.handle) == n + 1);
        let rec = handle.into_inner();
        assert!(unsafe { ATTEMPTS } as usize == n + 1); // exits exactly when try_unwrap succeeds: not earlier, not later
        assert!(unsafe { IN_FLIGHT } == 0); // i.e. only when no emission is executing inside the recorder
        assert!(!unsafe { BAD });
        assert!(rec.id == id);
        assert!(DROPS.load(O::SeqCst) == 0);
        drop(rec);
        assert!(DROPS.load(O::SeqCst) == 1);
        assert!(wrapped.recorder.upgrade().is_none());
        kani::cover!(n == 3);
        kani::cover!(n == 0);
    }

    // ---- emissions may also START while into_inner waits ---------------------------------------------------------
    // Environment (other threads), acting at every point where into_inner touches the strong count -- the CAS of
    // Arc::try_unwrap AND any plain load of it (Arc::strong_count), so that a waiting strategy built on loads is covered too:
    //   * after a load that observed the count, and before every CAS attempt, ONE new emission may start (Weak::upgrade:
    //     strong += 1, a real Arc<Rec> parked in HELD2), at most STARTS_LEFT times in total;
    //   * after a failed CAS attempt, or after a load that saw strong > 1, one in-flight emission finishes.
    // Guarantee asked of into_inner ("returns the original recorder only when no emission is executing inside it", and it
    // never panics): it terminates, the CAS that succeeds sees strong == 1 with no emission in flight, the recorder comes back
    // un-finalised.  A check-then-act wait (spin on strong_count, then a single try_unwrap that must succeed) breaks here.
    pub static mut HELD2: [Option<Arc<Rec>>; 4] = [None, None, None, None];
    pub static mut IN_FLIGHT2: usize = 0;
    pub static mut STARTS_LEFT: u32 = 0;
    pub static mut STRONG2: usize = 0;   // address of the strong count of the handle's Arc (0 = not armed)
    pub static mut DATA2: usize = 0;     // address of the Rec inside that Arc
    pub static mut OK_AT_ZERO: bool = true;

    unsafe fn env_start_one(p: *mut usize) {
        if STARTS_LEFT > 0 && IN_FLIGHT2 < 4 && *p >= 1 && kani::any() {
            STARTS_LEFT -= 1;
            *p += 1;                                            // Weak::upgrade's effect on the strong count (A1)
            HELD2[IN_FLIGHT2] = Some(Arc::from_raw(DATA2 as *const Rec));
            IN_FLIGHT2 += 1;
        }
    }
    unsafe fn env_finish_one() {
        if IN_FLIGHT2 > 0 {
            IN_FLIGHT2 -= 1;
            let e = HELD2[IN_FLIGHT2].take();
            drop(e);                                            // the emission's reference goes away (real Arc drop)
        }
    }
    pub fn load2_stub(a: &AUZ, _o: O) -> usize {
        unsafe {
            let p = a.as_ptr();
            let v = *p;
            if STRONG2 != 0 && p as usize == STRONG2 {
                if v > 1 { env_finish_one(); } else { env_start_one(p); }
            }
            v
        }
    }
    pub fn compare_exchange2_stub(a: &AUZ, current: usize, new: usize, _s: O, _f: O) -> Result<usize, usize> {
        unsafe {
            let p = a.as_ptr();
            if STRONG2 == 0 || p as usize != STRONG2 {
                let cur = *p;
                return if cur == current { *p = new; Ok(cur) } else { Err(cur) };
            }
            env_start_one(p);
            let cur = *p;
            if cur == current {
                if !(current == 1 && new == 0 && IN_FLIGHT2 == 0) { OK_AT_ZERO = false; }
                *p = new;
                Ok(cur)
            } else {
                env_finish_one();
                Err(cur)
            }
        }
    }
    #[kani::proof]
    #[kani::unwind(8)]
    #[kani::stub(core::sync::atomic::Atomic::<usize>::compare_exchange, compare_exchange2_stub)]
    #[kani::stub(core::sync::atomic::Atomic::<usize>::load, load2_stub)]
    #[kani::stub(core::hint::spin_loop, spin_loop_stub)]
    fn c20_into_inner_vs_starting_emissions_rg() {
        let n: usize = kani::any();
        kani::assume(n <= 1);
        let starts: u32 = kani::any();
        kani::assume(starts <= 2);
        let id: u32 = kani::any();
        let (wrapped, handle) = RecoverableRecorder::new(Rec { id }).build();
        let data = Arc::as_ptr(&handle.handle);
        unsafe {
            DATA2 = data as usize;
            // ArcInner<Rec> = { strong: AtomicUsize, weak: AtomicUsize, data: Rec } (repr(C)); checked right below
            STRONG2 = data as usize - 2 * core::mem::size_of::<usize>();
            assert!(*(STRONG2 as *const usize) == 1);
        }
        if n == 1 {
            unsafe {
                *(STRONG2 as *mut usize) += 1;
                HELD2[0] = Some(Arc::from_raw(data));
                IN_FLIGHT2 = 1;
            }
        }
        unsafe { STARTS_LEFT = starts };
        let rec = handle.into_inner();          // must not panic, must terminate
        unsafe {
            STRONG2 = 0;                        // disarm the environment
            assert!(OK_AT_ZERO);                // the successful CAS saw strong == 1 and nobody inside
            assert!(IN_FLIGHT2 == 0);
        }
        assert!(rec.id == id);
        assert!(DROPS.load(O::SeqCst) == 0);
        core::mem::forget(rec);
        core::mem::forget(wrapped);
        kani::cover!(n == 1 && starts == 2);
        kani::cover!(n == 0 && starts == 1);
    }
}
