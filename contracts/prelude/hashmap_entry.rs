// std HashMap entry API: vstd specifies `entry` and `or_insert`; `or_insert_with` / `or_default` follow the same scheme (ASSUMED std contract)
pub assume_specification<'a, K, V, A: std::alloc::Allocator, F: FnOnce() -> V>
    [ std::collections::hash_map::Entry::<'a, K, V, A>::or_insert_with ](entry: std::collections::hash_map::Entry<'a, K, V, A>, default: F) -> (value: &'a mut V)
    requires vstd::std_specs::hash::EntrySpecFns::value(entry) is None ==> default.requires(()),
    ensures
        match vstd::std_specs::hash::EntrySpecFns::value(entry) { Some(v) => *value == v, None => default.ensures((), *value) },
        vstd::std_specs::hash::EntrySpecFns::final_value(entry) == Some(*final(value));
pub assume_specification<'a, K, V: Default>
    [ std::collections::hash_map::Entry::<'a, K, V>::or_default ](entry: std::collections::hash_map::Entry<'a, K, V>) -> (value: &'a mut V)
    ensures
        match vstd::std_specs::hash::EntrySpecFns::value(entry) { Some(v) => *value == v, None => call_ensures(V::default, (), *value) },
        vstd::std_specs::hash::EntrySpecFns::final_value(entry) == Some(*final(value));
