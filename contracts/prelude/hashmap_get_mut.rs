// HashMap::get_mut (vstd specifies get/insert/remove but not get_mut). ASSUMED std contract: a hit hands out a mutable reference
// to the stored value of exactly that key; nothing else in the map changes; a miss changes nothing.
pub mod getmut_axioms {
    use vstd::prelude::*;
    /// "the K-typed key `kk` is the key denoted by the borrowed form `q`"
    pub uninterp spec fn same_key<K, Q: ?Sized>(kk: K, q: &Q) -> bool;
    // ASSUMED: for Q = K the borrowed form denotes itself
    #[verifier::external_body]
    pub broadcast proof fn axiom_same_key_refl<K>(kk: K, q: &K)
        ensures #[trigger] same_key::<K, K>(kk, q) == (kk == *q),
    {
    }
}
pub use getmut_axioms::same_key;

pub assume_specification<'a, K: Eq + std::hash::Hash + std::borrow::Borrow<Q>, V, S: std::hash::BuildHasher, A: std::alloc::Allocator, Q: ?Sized + std::hash::Hash + Eq>
    [ HashMap::<K, V, S, A>::get_mut::<Q> ](m: &'a mut HashMap<K, V, S, A>, k: &Q) -> (r: Option<&'a mut V>)
    ensures
        obeys_key_model::<K>() && builds_valid_hashers::<S>() ==> (match r {
            Some(v) => {
                &&& final(m)@.dom() == old(m)@.dom()
                &&& forall|kk: K| old(m)@.contains_key(kk) && same_key(kk, k) ==> *v == old(m)@[kk] && #[trigger] final(m)@[kk] == *final(v)
                &&& forall|kk: K| old(m)@.contains_key(kk) && !same_key(kk, k) ==> #[trigger] final(m)@[kk] == old(m)@[kk]
                &&& exists|kk: K| old(m)@.contains_key(kk) && same_key(kk, k)
            },
            None => final(m)@ == old(m)@ && forall|kk: K| same_key(kk, k) ==> !old(m)@.contains_key(kk),
        });

