// ------------------------------------------------------------------ std items vstd lacks (ASSUMED: a Mutex is a lock)
#[verifier::external_type_specification]
#[verifier::external_body]
#[verifier::reject_recursive_types(T)]
pub struct ExMutex<T: ?Sized>(Mutex<T>);

#[verifier::external_type_specification]
#[verifier::external_body]
#[verifier::reject_recursive_types(T)]
pub struct ExMutexGuard<'a, T: ?Sized + 'a>(MutexGuard<'a, T>);

#[verifier::external_type_specification]
#[verifier::external_body]
#[verifier::reject_recursive_types(T)]
pub struct ExPoisonError<T>(PoisonError<T>);

