// ------------------------------------------------------------------ std items vstd lacks (ASSUMED: an RwLock is a lock)
#[verifier::external_type_specification]
#[verifier::external_body]
#[verifier::reject_recursive_types(T)]
pub struct ExRwLock<T: ?Sized>(RwLock<T>);
#[verifier::external_type_specification]
#[verifier::external_body]
#[verifier::reject_recursive_types(T)]
pub struct ExRwLockReadGuard<'a, T: ?Sized>(RwLockReadGuard<'a, T>);
#[verifier::external_type_specification]
#[verifier::external_body]
#[verifier::reject_recursive_types(T)]
pub struct ExRwLockWriteGuard<'a, T: ?Sized + 'a>(RwLockWriteGuard<'a, T>);
#[verifier::external_type_specification]
#[verifier::external_body]
#[verifier::reject_recursive_types(T)]
pub struct ExPoisonError<T>(PoisonError<T>);

// the content under a freshly acquired lock is ARBITRARY: other threads may have inserted or deleted anything since the last
// release (the rely of a lock-protected map). No ensures about it.
pub assume_specification<'a, T: ?Sized>[ RwLock::<T>::read ](l: &'a RwLock<T>) -> (r: LockResult<RwLockReadGuard<'a, T>>);
pub assume_specification<'a, T: ?Sized>[ RwLock::<T>::write ](l: &'a RwLock<T>) -> (r: LockResult<RwLockWriteGuard<'a, T>>);
pub assume_specification<T, E, F: FnOnce(E) -> T>[ Result::<T, E>::unwrap_or_else ](r: Result<T, E>, f: F) -> (t: T)
    requires r is Err ==> f.requires((r->Err_0,)),
    ensures r is Ok ==> t == r->Ok_0, r is Err ==> f.ensures((r->Err_0,), t);
pub assume_specification<T>[ PoisonError::<T>::into_inner ](e: PoisonError<T>) -> (t: T);
pub assume_specification<T>[ std::mem::drop ](_0: T);

/// the value a held guard gives access to
pub uninterp spec fn rguarded<'a, 'b, T: ?Sized>(g: &'b RwLockReadGuard<'a, T>) -> &'b T;
pub uninterp spec fn wguarded<'a, 'b, T: ?Sized>(g: &'b RwLockWriteGuard<'a, T>) -> &'b T;
pub assume_specification<'a, 'b, T: ?Sized>[ <RwLockReadGuard<'a, T> as Deref>::deref ](g: &'b RwLockReadGuard<'a, T>) -> (r: &'b T)
    ensures r == rguarded(g);
pub assume_specification<'a, 'b, T: ?Sized>[ <RwLockWriteGuard<'a, T> as Deref>::deref ](g: &'b RwLockWriteGuard<'a, T>) -> (r: &'b T)
    ensures r == wguarded(g);
pub assume_specification<'a, 'b, T: ?Sized>[ <RwLockWriteGuard<'a, T> as DerefMut>::deref_mut ](g: &'b mut RwLockWriteGuard<'a, T>) -> (r: &'b mut T)
    ensures &*r == wguarded(old(g)), wguarded(final(g)) == &*final(r);


