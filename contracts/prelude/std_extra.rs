// ------------------------------------------------------------------ shared: std combinators vstd does not specify (ASSUMED std contracts)
// Included so that a refactoring which switches between `match` and a combinator stays inside the verified subset.
pub assume_specification<T, U, F: FnOnce(T) -> U>[ Option::<T>::map_or ](o: Option<T>, default: U, f: F) -> (r: U)
    requires o is Some ==> f.requires((o->Some_0,)),
    ensures o is None ==> r == default, o is Some ==> f.ensures((o->Some_0,), r);
pub assume_specification<T, U, D: FnOnce() -> U, F: FnOnce(T) -> U>[ Option::<T>::map_or_else ](o: Option<T>, default: D, f: F) -> (r: U)
    requires o is Some ==> f.requires((o->Some_0,)), o is None ==> default.requires(()),
    ensures o is None ==> default.ensures((), r), o is Some ==> f.ensures((o->Some_0,), r);
pub assume_specification<T, E, U, D: FnOnce(E) -> U, F: FnOnce(T) -> U>[ Result::<T, E>::map_or_else ](o: Result<T, E>, default: D, f: F) -> (r: U)
    requires o is Ok ==> f.requires((o->Ok_0,)), o is Err ==> default.requires((o->Err_0,)),
    ensures o is Err ==> default.ensures((o->Err_0,), r), o is Ok ==> f.ensures((o->Ok_0,), r);
pub assume_specification<F: FnOnce() -> core::cmp::Ordering>[ core::cmp::Ordering::then_with ](o: core::cmp::Ordering, f: F) -> (r: core::cmp::Ordering)
    requires o == core::cmp::Ordering::Equal ==> f.requires(()),
    ensures o != core::cmp::Ordering::Equal ==> r == o, o == core::cmp::Ordering::Equal ==> f.ensures((), r);
pub assume_specification[ core::cmp::Ordering::then ](o: core::cmp::Ordering, other: core::cmp::Ordering) -> (r: core::cmp::Ordering)
    ensures r == (if o != core::cmp::Ordering::Equal { o } else { other });
pub assume_specification<T, F: FnOnce() -> Option<T>>[ Option::<T>::or_else ](o: Option<T>, f: F) -> (r: Option<T>)
    requires o is None ==> f.requires(()),
    ensures o is Some ==> r == o, o is None ==> f.ensures((), r);
pub assume_specification<T, P: FnOnce(&T) -> bool>[ Option::<T>::filter ](o: Option<T>, p: P) -> (r: Option<T>)
    requires o is Some ==> p.requires((&o->Some_0,)),
    ensures o is None ==> r is None, o is Some ==> (r is None || r == o), o is Some ==> (p.ensures((&o->Some_0,), true) ==> r == o);
// `impl<T: Clone> ToOwned for T`: to_owned() is clone()
pub assume_specification<T: Clone>[ <T as std::borrow::ToOwned>::to_owned ](t: &T) -> (r: T)
    ensures call_ensures(T::clone, (t,), r);
pub assume_specification<T, F: FnOnce() -> T>[ Option::<T>::get_or_insert_with ](o: &mut Option<T>, f: F) -> (r: &mut T)
    requires *old(o) is None ==> f.requires(()),
    ensures
        *old(o) is Some ==> *r == (*old(o))->Some_0,
        *old(o) is None ==> f.ensures((), *r),
        *final(o) == Some(*final(r));
pub assume_specification<T, F: FnOnce(T) -> bool>[ Option::<T>::is_some_and ](o: Option<T>, f: F) -> (r: bool)
    requires o is Some ==> f.requires((o->Some_0,)),
    ensures o is None ==> !r, o is Some ==> f.ensures((o->Some_0,), r);
pub assume_specification<T>[ Option::<T>::or ](o: Option<T>, b: Option<T>) -> (r: Option<T>)
    ensures r == (if o is Some { o } else { b });
pub assume_specification<T>[ Option::<T>::xor ](o: Option<T>, b: Option<T>) -> (r: Option<T>)
    ensures r == (if o is Some && b is None { o } else if o is None && b is Some { b } else { None::<T> });
pub assume_specification<T, E, U, F: FnOnce(T) -> Result<U, E>>[ Result::<T, E>::and_then ](res: Result<T, E>, f: F) -> (r: Result<U, E>)
    requires res is Ok ==> f.requires((res->Ok_0,)),
    ensures res is Err ==> r is Err && r->Err_0 == res->Err_0, res is Ok ==> f.ensures((res->Ok_0,), r);
pub assume_specification<T, E>[ Result::<T, E>::unwrap_or ](res: Result<T, E>, default: T) -> (r: T)
    ensures r == (if res is Ok { res->Ok_0 } else { default });
pub assume_specification<T>[ bool::then_some ](b: bool, t: T) -> (r: Option<T>)
    ensures r == (if b { Some(t) } else { None::<T> });
// Vec / String / slice / integer helpers vstd does not specify (ASSUMED std contracts)
pub assume_specification<T: Clone>[ <[T]>::to_vec ](s: &[T]) -> (r: Vec<T>)
    ensures r@.len() == s@.len(), forall|i: int| 0 <= i < s@.len() ==> call_ensures(T::clone, (&s@[i],), #[trigger] r@[i]);
pub assume_specification[ String::reserve ](s: &mut String, additional: usize)
    ensures final(s)@ == old(s)@;
pub uninterp spec fn f64_bits(f: f64) -> u64;
pub assume_specification[ f64::to_bits ](f: f64) -> (r: u64)
    ensures r == f64_bits(f);
pub assume_specification[ usize::is_power_of_two ](a: usize) -> (r: bool)
    ensures r == (a > 0 && a & ((a - 1) as usize) == 0);
pub assume_specification[ usize::overflowing_add ](a: usize, b: usize) -> (r: (usize, bool))
    ensures r.0 as int == (a + b) % (usize::MAX as int + 1), r.1 == (a + b > usize::MAX);
pub assume_specification<T>[ Option::<T>::replace ](o: &mut Option<T>, value: T) -> (r: Option<T>)
    ensures r == *old(o), *final(o) == Some(value);
// String::len (byte length; an uninterpreted function of the string) -- usable in spec position too, so that an auto-pulled
// helper (R39) whose body calls it can be read as a spec expression
pub uninterp spec fn string_byte_len(s: &String) -> usize;
#[verifier::when_used_as_spec(string_byte_len)]
pub assume_specification[ String::len ](s: &String) -> (r: usize) ensures r == string_byte_len(s);
// R40: `s.contains('c')` for a char pattern (std contract, ASSUMED)
#[verifier::external_body]
pub fn shim_str_contains_char(s: &str, c: char) -> (r: bool) ensures r == s@.contains(c) { s.contains(c) }
