"""Shared plumbing for the /verif contract-verification driver (python3 stdlib only)."""
import json, os, re, shutil, signal, subprocess, sys, time

VERIF = os.path.dirname(os.path.dirname(os.path.abspath(__file__)))
REPO = os.environ.get("VERIF_REPO", "/repo")
VENDOR = os.path.join(VERIF, ".vendor")
CACHE = os.path.join(VERIF, ".cache")
EVIDENCE = os.environ.get("VERIF_EVIDENCE") or os.path.join(VERIF, "evidence")   # VERIF_EVIDENCE: side runs (dev, seed / benign evaluation) write elsewhere
LOGS = os.path.join(EVIDENCE, "logs")
REPLAY = os.path.join(EVIDENCE, "replay")
SCRATCH_ROOT = os.environ.get("VERIF_SCRATCH", "/tmp/mverif")
KNOWN = os.path.join(VERIF, "known_findings.txt")

EXIT_OK, EXIT_VIOLATION, EXIT_UNDECIDED = 0, 1, 2


class Undecided(Exception):
    """Tool limit, lost anchor, timeout, unsupported construct: never an alarm (exit 2)."""


def ensure_dirs():
    for d in (CACHE, EVIDENCE, LOGS, REPLAY):
        os.makedirs(d, exist_ok=True)


def _pgid_rss_gb(pgid):
    tot = 0
    for d in os.listdir("/proc"):
        if not d.isdigit():
            continue
        try:
            with open(f"/proc/{d}/stat") as f:
                st = f.read()
            rp = st.rfind(")")
            fields = st[rp + 2:].split()
            if int(fields[2]) != pgid:      # pgrp
                continue
            tot += int(fields[21]) * 4096     # rss pages
        except Exception:
            continue
    return tot / (1 << 30)


_LIVE_PGIDS = set()


def _kill_children(*_a):
    for pg in list(_LIVE_PGIDS):
        try:
            os.killpg(pg, signal.SIGKILL)
        except Exception:
            pass
    if _a:      # called as a signal handler
        os._exit(143)


def install_cleanup():
    """kill every child process group when the driver itself is terminated (e.g. by an outer `timeout`)"""
    import atexit
    atexit.register(_kill_children)
    for sig in (signal.SIGTERM, signal.SIGINT, signal.SIGHUP):
        try:
            signal.signal(sig, _kill_children)
        except Exception:
            pass


def run(cmd, cwd=None, timeout=None, env=None, mem_gb=None, stdin=None):
    """Run cmd (list) in its own process group with a wall timeout and an RSS watchdog (sum over the group);
    returns (rc, output, secs, timed_out). A memory kill is reported as timed_out with 'MEMORY-LIMIT' in the output."""
    import threading
    t0 = time.time()
    p = subprocess.Popen(cmd, cwd=cwd, env=env, stdout=subprocess.PIPE, stderr=subprocess.STDOUT,
                         stdin=subprocess.DEVNULL if stdin is None else stdin, preexec_fn=os.setsid, text=True,
                         errors="replace")
    state = {"killed": None}
    _LIVE_PGIDS.add(p.pid)

    def watchdog():
        while p.poll() is None:
            if timeout and time.time() - t0 > timeout:
                state["killed"] = "timeout"
            elif mem_gb and _pgid_rss_gb(p.pid) > mem_gb:
                state["killed"] = "memory"
            if state["killed"]:
                try:
                    os.killpg(p.pid, signal.SIGKILL)
                except ProcessLookupError:
                    pass
                return
            time.sleep(1.5)
    th = threading.Thread(target=watchdog, daemon=True)
    th.start()
    out, _ = p.communicate()
    _LIVE_PGIDS.discard(p.pid)
    th.join(timeout=5)
    if state["killed"] == "memory":
        out += f"\nMEMORY-LIMIT: process group exceeded {mem_gb} GB RSS and was killed\n"
    return p.returncode, out, time.time() - t0, state["killed"] is not None


def read(path):
    with open(path, encoding="utf-8") as f:
        return f.read()


def write(path, text):
    os.makedirs(os.path.dirname(path), exist_ok=True)
    with open(path, "w", encoding="utf-8") as f:
        f.write(text)


def sha(text):
    import hashlib
    return hashlib.sha256(text.encode()).hexdigest()[:16]


def load_known():
    """known_findings.txt lines:
         finding: property=Cxx obligation=<name> <free text>
         fixed: property=Cxx <commit> <free text>
       Only 'finding:' entries suppress (and only the exact obligation named)."""
    findings = []
    if os.path.exists(KNOWN):
        for line in read(KNOWN).splitlines():
            line = line.strip()
            if line.startswith("finding:"):
                m = re.match(r"finding:\s+property=(\S+)\s+obligation=(\S+)\s*(.*)", line)
                if m:
                    findings.append({"property": m.group(1), "obligation": m.group(2), "text": m.group(3)})
    return findings
