"""Verus route, part 1: item-level extraction of real Rust source text and contract splicing.

A template (contracts/Cxx/*.verus.rs) is ordinary Verus text (prelude, spec fns, lemmas, impl headers)
with directive blocks of the form

    //@ITEM file=<path rel. to /repo> sel=<selector> [ret=<name>] [strip=pub]
    //@SPEC
    <clauses spliced between signature and body>
    //@LOOP <k>
    <invariant/decreases clauses spliced before the body of the k-th loop (1-based, source order)>
    //@BEFORE <k> <snippet>
    <ghost lines inserted before the k-th body line containing snippet>
    //@AFTER <k> <snippet>
    <ghost lines inserted after that line>
    //@REWRITE <rule> <from> ==> <to>
    //@END

Each block is replaced by the item pulled *verbatim* from /repo's current working tree, with the
splices applied.  Selectors:  `fn NAME` | `struct NAME` | `enum NAME` | `const NAME` |
`impl <header-regex> :: fn NAME`  (header = text between `impl` and `{`, whitespace collapsed).
Anything that cannot be located => Undecided (exit 2), never an alarm.
"""
import re
from common import Undecided

# ---------------------------------------------------------------- tokenizer
IDENT_START = set("abcdefghijklmnopqrstuvwxyzABCDEFGHIJKLMNOPQRSTUVWXYZ_")
IDENT_CONT = IDENT_START | set("0123456789")


def tokenize(s):
    """-> list of (kind, text, start, end); kinds: ws, comment, str, char, lifetime, ident, num, punct"""
    toks = []
    i, n = 0, len(s)
    while i < n:
        c = s[i]
        if c in " \t\r\n":
            j = i
            while j < n and s[j] in " \t\r\n":
                j += 1
            toks.append(("ws", s[i:j], i, j)); i = j; continue
        if s.startswith("//", i):
            j = s.find("\n", i)
            j = n if j < 0 else j
            toks.append(("comment", s[i:j], i, j)); i = j; continue
        if s.startswith("/*", i):
            depth, j = 1, i + 2
            while j < n and depth:
                if s.startswith("/*", j): depth += 1; j += 2
                elif s.startswith("*/", j): depth -= 1; j += 2
                else: j += 1
            toks.append(("comment", s[i:j], i, j)); i = j; continue
        # raw strings / byte strings
        m = re.match(r'(?:b|c)?r(#*)"', s[i:i + 40])
        if m and (c in "brc"):
            hashes = m.group(1)
            end = s.find('"' + hashes, i + m.end())
            if end < 0:
                raise Undecided("unterminated raw string")
            j = end + 1 + len(hashes)
            toks.append(("str", s[i:j], i, j)); i = j; continue
        if c == '"' or (c in "bc" and i + 1 < n and s[i + 1] == '"'):
            j = i + (1 if c == '"' else 2)
            while j < n and s[j] != '"':
                j += 2 if s[j] == "\\" else 1
            j += 1
            toks.append(("str", s[i:j], i, j)); i = j; continue
        if c == "'" or (c == "b" and i + 1 < n and s[i + 1] == "'"):
            k = i + (1 if c == "'" else 2)
            # char literal?  '\..' or 'x'
            if k < n and s[k] == "\\":
                j = k + 2
                while j < n and s[j] != "'":
                    j += 1
                j += 1
                toks.append(("char", s[i:j], i, j)); i = j; continue
            if k + 1 < n and s[k + 1] == "'":
                j = k + 2
                toks.append(("char", s[i:j], i, j)); i = j; continue
            # multi-byte char literal e.g. 'é'
            mm = re.match(r"'[^'\\\n]'", s[i:i + 8])
            if c == "'" and mm:
                j = i + mm.end()
                toks.append(("char", s[i:j], i, j)); i = j; continue
            # lifetime
            j = k
            while j < n and s[j] in IDENT_CONT:
                j += 1
            toks.append(("lifetime", s[i:j], i, j)); i = j; continue
        if c in IDENT_START:
            j = i
            while j < n and s[j] in IDENT_CONT:
                j += 1
            # raw identifiers r#foo handled as ident 'r' + punct; fine for our purposes
            toks.append(("ident", s[i:j], i, j)); i = j; continue
        if c.isdigit():
            j = i
            while j < n and (s[j] in IDENT_CONT or (s[j] == "." and j + 1 < n and s[j + 1].isdigit())):
                j += 1
            toks.append(("num", s[i:j], i, j)); i = j; continue
        toks.append(("punct", c, i, i + 1)); i += 1
    return toks


def code_tokens(toks):
    return [t for t in toks if t[0] not in ("ws", "comment")]


def match_brace(ct, k):
    """ct[k] is '{' (or '(' or '['); returns index of the matching closer."""
    open_c = ct[k][1]
    close_c = {"{": "}", "(": ")", "[": "]"}[open_c]
    depth = 0
    for j in range(k, len(ct)):
        if ct[j][0] == "punct":
            if ct[j][1] == open_c: depth += 1
            elif ct[j][1] == close_c:
                depth -= 1
                if depth == 0:
                    return j
    raise Undecided("unbalanced delimiters")


def find_body_open(ct, k):
    """from token index k (the `fn`/`impl`/loop keyword) find the first '{' at paren/bracket depth 0; also stops at ';'"""
    depth = 0
    j = k
    while j < len(ct):
        t = ct[j]
        if t[0] == "punct":
            if t[1] in "([": depth += 1
            elif t[1] in ")]": depth -= 1
            elif t[1] == "{" and depth == 0: return j
            elif t[1] == ";" and depth == 0: return None
        j += 1
    return None


QUALS = {"pub", "const", "unsafe", "async", "extern", "default"}


def item_start(ct, k):
    """walk back from keyword index k over qualifiers (`pub`, `pub(super)`, `const`, ...)"""
    j = k
    while j > 0:
        p = ct[j - 1]
        if p[0] == "ident" and p[1] in QUALS:
            j -= 1; continue
        if p[0] == "punct" and p[1] == ")":
            # pub(crate) / pub(super) / pub(in path)
            q = j - 1
            while q > 0 and not (ct[q][0] == "punct" and ct[q][1] == "("):
                q -= 1
            if q > 0 and ct[q - 1][0] == "ident" and ct[q - 1][1] == "pub":
                j = q - 1; continue
        if p[0] == "str" and j >= 2 and ct[j - 2][1] == "extern":
            j -= 1; continue
        break
    return j


def top_level_items(ct, lo, hi):
    """yield (keyword, name, kw_index, end_index_inclusive, header_text_tokens) for items directly in ct[lo:hi]"""
    j = lo
    while j < hi:
        t = ct[j]
        if t[0] == "punct" and t[1] == "#":  # attribute: skip #[...] / #![...]
            q = j + 1
            if q < hi and ct[q][1] == "!": q += 1
            if q < hi and ct[q][1] == "[":
                j = match_brace(ct, q) + 1; continue
        if t[0] == "ident" and t[1] in ("fn", "struct", "enum", "impl", "mod", "trait", "const", "static", "type", "union", "macro_rules", "use"):
            kw = t[1]
            if kw == "const" and j + 1 < hi and ct[j + 1][1] in ("fn", "unsafe", "async", "extern"):
                j += 1; continue
            if kw == "unsafe" or kw == "use":
                pass
            name = ct[j + 1][1] if j + 1 < hi else ""
            b = find_body_open(ct, j)
            if kw in ("struct",) :
                # tuple/unit structs end with ';'
                pass
            if b is None:
                # ends at ';'
                q = j
                depth = 0
                while q < hi:
                    if ct[q][0] == "punct":
                        if ct[q][1] in "([{": depth += 1
                        elif ct[q][1] in ")]}": depth -= 1
                        elif ct[q][1] == ";" and depth == 0: break
                    q += 1
                yield (kw, name, j, q, None)
                j = q + 1; continue
            e = match_brace(ct, b)
            if kw == "macro_rules":
                j = e + 1; continue
            yield (kw, name, j, e, b)
            j = e + 1; continue
        j += 1


def norm_header(src, ct, k, b):
    txt = src[ct[k][2]:ct[b][2]]
    txt = re.sub(r"//[^\n]*", "", txt)
    return " ".join(txt.split())


def locate(src, sel):
    """-> (start_offset, end_offset, fn_kw_offset or None) of the selected item in src"""
    toks = tokenize(src)
    ct = code_tokens(toks)
    sel = sel.strip()
    m = re.match(r"impl\s*(.*?)\s*::\s*fn\s+(\w+)(?:\s*#(\d+))?$", sel)

    def search(lo, hi, want_kw, want_name, nth=0, into_mods=True):
        hits = []
        for kw, name, k, e, b in top_level_items(ct, lo, hi):
            if kw == want_kw and name == want_name:
                hits.append((k, e, b))
            elif kw == "mod" and b is not None and into_mods and name != "tests":
                r = search(b + 1, e, want_kw, want_name, 0, True)
                if r: hits.append(r)
        return hits[nth] if len(hits) > nth else None

    if m:
        hdr_re, fname, nth = m.group(1), m.group(2), int(m.group(3) or 0)
        cands = []

        def impls(lo, hi):
            for kw, name, k, e, b in top_level_items(ct, lo, hi):
                if kw == "impl" and b is not None:
                    h = norm_header(src, ct, k, b)
                    if re.fullmatch(r"impl\s*" + hdr_re, h) or re.fullmatch(hdr_re, h):
                        cands.append((b, e))
                elif kw == "mod" and b is not None and name != "tests":
                    impls(b + 1, e)
        impls(0, len(ct))
        found = []
        for b, e in cands:
            r = search(b + 1, e, "fn", fname, 0, False)
            if r: found.append(r)
        if len(found) <= nth:
            raise Undecided(f"lost anchor: `{sel}` not found")
        k, e, b = found[nth]
    else:
        mm = re.match(r"(fn|struct|enum|const|static|type|trait|impl)\s+(.+?)(?:\s*#(\d+))?$", sel)
        if not mm:
            raise Undecided(f"bad selector `{sel}`")
        kw, name, nth = mm.group(1), mm.group(2), int(mm.group(3) or 0)
        if kw == "impl":
            cands = []
            for kw2, name2, k, e, b in top_level_items(ct, 0, len(ct)):
                if kw2 == "impl" and b is not None and re.fullmatch(r"impl\s*" + name, norm_header(src, ct, k, b)):
                    cands.append((k, e, b))
            if len(cands) <= nth:
                raise Undecided(f"lost anchor: `{sel}` not found")
            k, e, b = cands[nth]
        else:
            r = search(0, len(ct), kw, name, nth)
            if not r:
                raise Undecided(f"lost anchor: `{sel}` not found")
            k, e, b = r
    s = item_start(ct, k)
    return ct[s][2], ct[e][3]


# ---------------------------------------------------------------- splicing
def decode_byte_string(lit):
    body = lit[2:-1]
    out, i = [], 0
    esc = {"n": 10, "r": 13, "t": 9, "\\": 92, "0": 0, '"': 34, "'": 39}
    while i < len(body):
        c = body[i]
        if c == "\\":
            n = body[i + 1]
            if n == "x":
                out.append(int(body[i + 2:i + 4], 16)); i += 4; continue
            if n == "\n":  # line continuation
                i += 2
                while i < len(body) and body[i] in " \t\n\r": i += 1
                continue
            if n not in esc:
                raise Undecided(f"R8: unknown escape in byte string {lit}")
            out.append(esc[n]); i += 2; continue
        if ord(c) > 127:
            raise Undecided(f"R8: non-ASCII byte string {lit}")
        out.append(ord(c)); i += 1
    return out


def apply_rewrite(text, frm, to):
    """literal rewrite; whitespace in `frm` matches any run of whitespace (incl. none) in the source.
    `re:<regex>` as `frm` is a regular-expression rewrite (replacement may use \\1 ..)."""
    if frm.startswith("re:"):
        return re.subn(frm[3:], to, text)
    pat = r"\s*".join(re.escape(c) for c in frm.split())
    return re.subn(pat, lambda m: to, text)


LOOP_KW = ("for", "while", "loop")

# (rule, from, to): applied to every extracted function after its declared rewrites; each is a no-op when the idiom is absent
GLOBAL_REWRITES = [
    # R40: `s.contains('c')` (str::contains is generic over the unstable Pattern trait) -> shim with spec `r == s@.contains('c')`
    # R41: a closure parameter spelled `_` (Verus: "only variables are supported here, not general patterns") gets a name
    ("R41", r"re:\|_\|", "|_unused_arg|"),
    # R42: a closure whose whole body is a boolean literal is annotated with exactly that (`|x| false` -> ensures cr == false)
    ("R42", r"re:\|(\w+)\| (true|false)(?=\s*[),;])", r"|\1| -> (cr: bool) ensures cr == \2 { \2 }"),
    # R43: an unannotated one-parameter closure whose whole body is a boolean expression (a comparison, a conjunction, a negation)
    # is annotated with its own body read as a spec expression; if Verus cannot read it that way the run ends undecided as before
    ("R43", r"re:\|(\w+)\| ((?:!\s*)?(?:[^(){}|;,=<>!&]|\([^()]*\))+(?:(?:==|!=|<=|>=|<|>|&&)\s*(?:!\s*)?(?:[^(){}|;,=<>!&]|\([^()]*\))+)*)(?=\s*[),;])",
     "@R43"),
    # R46: an unannotated one-parameter closure that is a pure field projection of its parameter (`|x| x.a.b`, `|x| &x.a`) is
    # annotated with exactly that (return type inferred; `equal` because the type is not spelled)
    ("R46", r"re:\|(\w+)\| (&?\*?\1(?:\.\w+)+)(?=\s*[),;])(?!\s*\()", r"|\1| -> (r46_cr: _) ensures equal(r46_cr, \2) { \2 }"),
    ("R40", r"re:(\b[A-Za-z_][\w.]*)\.contains\(('(?:[^'\\]|\\.)+')\)", r"shim_str_contains_char(\1, \2)"),
]


def splice_fn(text, spec=None, ret=None, loops=None, before=None, after=None, rewrites=None, strip_pub=False, log=None, sel="", forloops=None, loopends=None, bodystart=None, bodyend=None, optloops=None, optghost=None):
    """text = verbatim fn item. Returns (new_text, segments) where segments = list of (kind, label, line_lo, line_hi)
    relative to new_text, for mapping verifier diagnostics back to named clauses."""
    log = log if log is not None else []
    # 1) textual rewrites (declared rules only)
    for rule, frm, to in (rewrites or []):
        text, cnt = apply_rewrite(text, frm, to)
        if cnt == 0 and not rule.endswith("?"):     # `R3?`: optional (deleting a statement that is not there is a no-op)
            raise Undecided(f"rewrite {rule} `{frm}` no longer applies in {sel}")
        log.append({"rule": rule, "item": sel, "from": frm, "to": to, "count": cnt})
    # 1a) global optional rewrites of common std idioms Verus has no specification for (shims live in contracts/prelude/std_extra.rs)
    for rule, frm, to in GLOBAL_REWRITES:
        if "(" in to and to.split("(")[0] in text:
            continue
        if to == "@R43":
            def _r43(m_):
                b_ = m_.group(2).strip()
                if not (b_.startswith("!") or re.search(r"==|!=|<=|>=|&&|\s<\s|\s>\s", b_)):
                    return m_.group(0)
                return f"|{m_.group(1)}| -> (r43_cr: bool) ensures r43_cr == ({b_}) {{ {b_} }}"
            new_text = re.sub(frm[3:], _r43, text)
            cnt = 1 if new_text != text else 0
            text = new_text
            if cnt:
                log.append({"rule": rule, "item": sel, "from": "|x| <boolean expression>", "to": "|x| -> (r43_cr: bool) ensures r43_cr == (<the same expression>) { .. }", "count": cnt})
            continue
        text, cnt = apply_rewrite(text, frm, to)
        if cnt:
            log.append({"rule": rule, "item": sel, "from": frm, "to": to, "count": cnt})
    # 1b) R8: byte-string literals b"..." -> &[b0, b1, ..] (Verus gives byte-string literals no view); same bytes, computed here
    toks0 = tokenize(text)
    outp, n8 = [], 0
    for t in toks0:
        if t[0] == "str" and t[1].startswith('b"'):
            bs = decode_byte_string(t[1])
            outp.append("&[" + ", ".join(f"{b}u8" for b in bs) + "]")
            n8 += 1
        else:
            outp.append(t[1])
    if n8:
        text = "".join(outp)
        log.append({"rule": "R8", "item": sel, "from": 'b"..."', "to": "&[bytes]", "count": n8})
    # 2) ghost lines (line based, done before token-level edits; we re-tokenize afterwards)
    lines = text.split("\n")

    def find_line(k, snippet):
        if snippet.startswith("="):
            hits = [i for i, l in enumerate(lines) if l.strip() == snippet[1:].strip()]
        else:
            hits = [i for i, l in enumerate(lines) if snippet in l]
        if len(hits) < k and not snippet.startswith("="):
            # fuzzy fallback: the anchor line was edited; ghost code carries no semantics, so re-anchor on the most similar
            # lines (ratio >= 0.72) and let the proof decide
            import difflib
            sn = snippet.strip()
            cand = []
            for i, l in enumerate(lines):
                st = l.strip()
                if not st or st.startswith("//"):
                    continue
                r = max(difflib.SequenceMatcher(None, sn, st[:len(sn) + 12]).ratio(), difflib.SequenceMatcher(None, sn, st).ratio())
                if r >= 0.72:
                    cand.append((r, i))
            if len(cand) >= k:
                best = sorted(i for r, i in sorted(cand, reverse=True)[:k])
                log.append({"rule": "anchor-fuzzy", "item": sel, "from": snippet, "to": lines[best[k - 1]].strip(), "count": 1})
                return best[k - 1]
        if len(hits) < k:
            raise Undecided(f"lost anchor: ghost splice point `{snippet}` #{k} in {sel}")
        return hits[k - 1]
    marks = []  # (line_index, 'before'|'after', ghost_lines, label)
    _find_line = find_line
    def find_line(k, snippet):
        # a ghost splice point declared optional (`//@AFTER k? ..`: hint only, carries no contract) that no longer exists: drop the
        # ghost text (it has no exec semantics) and let the proof decide.
        # If everything still verifies that is a proof; a failure in this item is then reported as UNDECIDED (the proof may
        # only be missing its hints), never as a violation -- see verus.py (`ghost-anchor-lost`).
        try:
            return _find_line(k, snippet)
        except Undecided as e:
            if (k, snippet) not in (optghost or ()):
                raise      # the ghost text may CARRY the contract (an assert at a splice point): losing it must not pass silently
            log.append({"rule": "ghost-anchor-lost", "item": sel, "from": f"`{snippet}` #{k}", "to": "(ghost text dropped)", "count": 1})
            return None
    for k, snippet, ghost in (before or []):
        i_ = find_line(k, snippet)
        if i_ is not None: marks.append((i_, 0, ghost, f"ghost-before:{snippet}"))
    def stmt_end(i):
        """index of the line on which the statement starting on line i ends (delimiter depth back to 0 and a ';' or a closing '}' seen)"""
        depth = 0
        for j in range(i, len(lines)):
            code = re.sub(r'"(?:[^"\\]|\\.)*"', '""', lines[j].split("//")[0])
            for ch in code:
                if ch in "([{": depth += 1
                elif ch in ")]}": depth -= 1
            if depth <= 0 and (code.rstrip().endswith(";") or code.rstrip().endswith("}")):
                return j
        return i
    for k, snippet, ghost in (after or []):
        if snippet.startswith("stmt:"):
            i_ = find_line(k, snippet[5:].strip())
            if i_ is not None: marks.append((stmt_end(i_) + 1, 1, ghost, f"ghost-after-stmt:{snippet[5:].strip()}"))
        else:
            i_ = find_line(k, snippet)
            if i_ is not None: marks.append((i_ + 1, 1, ghost, f"ghost-after:{snippet}"))
    marks.sort(key=lambda x: (x[0], x[1]))
    out = []
    mi = 0
    for i, l in enumerate(lines + [""]):
        while mi < len(marks) and marks[mi][0] == i:
            out.append("/*@GHOST-BEGIN %s*/" % marks[mi][3])
            out.extend(marks[mi][2])
            out.append("/*@GHOST-END*/")
            mi += 1
        if i < len(lines):
            out.append(l)
    text = "\n".join(out)
    # 3) token-level: return naming, spec before body, loop invariants
    toks = tokenize(text)
    ct = code_tokens(toks)
    kfn = next((i for i, t in enumerate(ct) if t[0] == "ident" and t[1] == "fn"), None)
    if kfn is None:
        raise Undecided(f"{sel}: not a fn item")
    b = find_body_open(ct, kfn)
    if b is None:
        raise Undecided(f"{sel}: fn without body")
    edits = []  # (offset, insert_text, delete_len)
    if strip_pub and ct[0][1] == "pub":
        end = ct[0][3]
        if ct[1][1] == "(":
            end = ct[match_brace(ct, 1)][3]
        edits.append((ct[0][2], "", end - ct[0][2]))
    if ret:
        # locate '->' at depth 0 between params and body
        depth = 0
        arrow = None
        for j in range(kfn, b):
            t = ct[j]
            if t[0] == "punct":
                if t[1] in "([": depth += 1
                elif t[1] in ")]": depth -= 1
                elif t[1] == "-" and depth == 0 and ct[j + 1][1] == ">" and ct[j + 1][2] == t[3]:
                    arrow = j; break
        if arrow is None:
            raise Undecided(f"{sel}: ret name given but no return type")
        tstart = ct[arrow + 2][2]
        # type ends before `where` at depth 0 or body
        tend_tok = b
        depth = 0
        for j in range(arrow + 2, b):
            t = ct[j]
            if t[0] == "punct" and t[1] in "([<": depth += 1
            elif t[0] == "punct" and t[1] in ")]>": depth -= 1
            elif t[0] == "ident" and t[1] == "where" and depth == 0:
                tend_tok = j; break
        tend = ct[tend_tok - 1][3]
        edits.append((tstart, f"({ret}: ", 0))
        edits.append((tend, ")", 0))
    if spec:
        edits.append((ct[b][2], "\n/*@SPEC-BEGIN*/\n" + "\n".join(spec) + "\n/*@SPEC-END*/\n", 0))
    if bodystart:
        edits.append((ct[b][3], "\n/*@GHOST-BEGIN body-start*/\n" + "\n".join(bodystart) + "\n/*@GHOST-END*/\n", 0))
    if bodyend:
        # ghost lines right before the body's closing brace: only when the body ends in a statement (`;` or `}`), i.e. the
        # function's value is `()`; a trailing expression would be displaced
        e_ = match_brace(ct, b)
        if ct[e_ - 1][1] not in (";", "}"):
            raise Undecided(f"{sel}: //@BODYEND needs a body that ends in a statement")
        edits.append((ct[e_][2], "\n/*@GHOST-BEGIN body-end*/\n" + "\n".join(bodyend) + "\n/*@GHOST-END*/\n", 0))
    if loops or loopends:
        loops = loops or []
        e = match_brace(ct, b)
        loop_idx = []
        j = b + 1
        while j < e:
            t = ct[j]
            if t[0] == "ident" and t[1] in LOOP_KW:
                if t[1] == "for" and ct[j + 1][1] == "<":
                    j += 1; continue
                # `for` as part of `impl X for Y` cannot occur inside a body except nested items: ignore
                lb = find_body_open(ct, j)
                if lb is not None:
                    loop_idx.append((j, lb))
            j += 1
        fl = dict(forloops or [])
        k_after = {id(g): True for kk, g in (loopends or []) if kk < 0}
        loopends = [(abs(kk), g) for kk, g in (loopends or [])]
        for k, ghost in (loopends or []):
            if k > len(loop_idx):
                if k in (optloops or ()):
                    log.append({"rule": "optional-loop-absent", "item": sel, "from": f"loop #{k}", "to": "(ghost text for it dropped)", "count": 1}); continue
                raise Undecided(f"lost anchor: loop #{k} in {sel} (found {len(loop_idx)})")
            le0 = match_brace(ct, loop_idx[k - 1][1])
            if k_after.get(id(ghost)):
                edits.append((ct[le0][3], "\n/*@GHOST-BEGIN after-loop %d*/\n" % k + "\n".join(ghost) + "\n/*@GHOST-END*/\n", 0))
            else:
                edits.append((ct[le0][2], "\n/*@GHOST-BEGIN loop-end %d*/\n" % k + "\n".join(ghost) + "\n/*@GHOST-END*/\n", 0))
        for k, inv in loops:
            if k > len(loop_idx):
                if k in (optloops or ()):
                    log.append({"rule": "optional-loop-absent", "item": sel, "from": f"loop #{k}", "to": "(invariant for it dropped)", "count": 1}); continue
                raise Undecided(f"lost anchor: loop #{k} in {sel} (found {len(loop_idx)})")
            kwi, lbi = loop_idx[k - 1]
            invtxt = "\n/*@LOOP-BEGIN %d*/\n" % k + "\n".join(inv) + "\n/*@LOOP-END*/\n"
            if k in fl:
                # R2: `for PAT in EXPR { BODY }` -> `{ let mut IT = shim_into_iter(EXPR); loop INV { match shim_next(&mut IT) { Some(PAT) => { BODY } None => { break; } } } }`
                fparts = fl[k].split()
                itname = fparts[0]
                shim_into = fparts[1] if len(fparts) > 1 else "shim_into_iter"
                shim_nxt = fparts[2] if len(fparts) > 2 else "shim_next"
                if ct[kwi][1] != "for":
                    raise Undecided(f"R2: loop #{k} in {sel} is not a `for` loop any more")
                # find `in` at depth 0 between for and body
                depth = 0
                kin = None
                for q in range(kwi + 1, lbi):
                    t = ct[q]
                    if t[0] == "punct" and t[1] in "([{": depth += 1
                    elif t[0] == "punct" and t[1] in ")]}": depth -= 1
                    elif t[0] == "ident" and t[1] == "in" and depth == 0:
                        kin = q; break
                if kin is None:
                    raise Undecided(f"R2: cannot parse for-loop header #{k} in {sel}")
                pat = text[ct[kwi + 1][2]:ct[kin - 1][3]]
                expr = text[ct[kin + 1][2]:ct[lbi - 1][3]]
                le = match_brace(ct, lbi)
                if itname.startswith("idx:"):
                    # R33: `for PAT in &mut EXPR { BODY }` over a Vec -> `let mut I: usize = 0; while I < EXPR.len() INV { let PAT = &mut EXPR[I]; BODY I += 1; }`
                    # (same elements in the same order; `break`/`return` keep their meaning; a `continue` would skip the increment => undecided)
                    iname = itname[4:]
                    if not expr.strip().startswith("&mut "):
                        raise Undecided(f"R33: loop #{k} in {sel} does not iterate over `&mut <vec>` any more")
                    vexpr = expr.strip()[5:].strip()
                    if any(t[0] == "ident" and t[1] == "continue" for t in ct[lbi:le]):
                        raise Undecided(f"R33: loop #{k} in {sel} contains `continue`")
                    head = "let mut %s: usize = 0; while %s < %s.len() %s { let %s = &mut %s[%s]; " % (iname, iname, vexpr, invtxt, pat, vexpr, iname)
                    edits.append((ct[kwi][2], head, ct[lbi][3] - ct[kwi][2]))
                    edits.append((ct[le][2], " %s += 1; " % iname, 0))
                    log.append({"rule": "R33", "item": sel, "from": f"for {pat} in {expr} {{..}}", "to": f"let mut {iname} = 0; while {iname} < {vexpr}.len() {{ let {pat} = &mut {vexpr}[{iname}]; ..; {iname} += 1; }}", "count": 1})
                    continue
                head = "let mut %s = %s(%s); loop %s { match %s(&mut %s) { Some(%s) => " % (itname, shim_into, expr, invtxt, shim_nxt, itname, pat)
                edits.append((ct[kwi][2], head, ct[lbi][2] - ct[kwi][2]))
                edits.append((ct[le][3], " None => { break; } } }", 0))
                log.append({"rule": "R2", "item": sel, "from": f"for {pat} in {expr} {{..}}", "to": f"let mut {itname} = shim_into_iter({expr}); loop {{ match shim_next(&mut {itname}) {{ Some({pat}) => {{..}} None => break }} }}", "count": 1})
            else:
                edits.append((ct[lbi][2], invtxt, 0))
    edits.sort(key=lambda x: -x[0])
    for off, ins, dl in edits:
        text = text[:off] + ins + text[off + dl:]
    return text


# ---------------------------------------------------------------- template composition
def compose(template_text, repo_root, read_file):
    """-> (composed_text, meta) ; meta: items=[{sel,file,hash,line_lo,line_hi}], rewrites=[...], linemap"""
    out_lines = []
    items = []
    rewrites_log = []
    regions = []  # (line_lo, line_hi, label) in composed text, 1-based inclusive
    lines = template_text.split("\n")
    i = 0
    from common import sha
    # //@INCLUDE <path relative to /verif/contracts>
    import os as _os
    inc = []
    for l in lines:
        if l.strip().startswith("//@INCLUDE"):
            pth = _os.path.join(_os.path.dirname(_os.path.dirname(_os.path.abspath(__file__))), "contracts", l.strip().split(None, 1)[1].strip())
            with open(pth, encoding="utf-8") as f:
                inc.extend(f.read().split("\n"))
        else:
            inc.append(l)
    lines = inc
    # conditional spec text keyed on the extracted source:  //@IF file=.. sel=.. contains=..  /  //@ELSE  /  //@ENDIF
    pre, skipping, stack_if = [], False, []
    for l in lines:
        st = l.strip()
        if st.startswith("//@IF "):
            a = dict(re.findall(r"(\w+)=((?:(?! \w+=).)+)", st[len("//@IF"):].strip()))
            a = {k: v.strip() for k, v in a.items()}
            src = read_file(a["file"])
            try:
                if a["sel"] == "file":
                    cond = a["contains"] in src
                else:
                    x, y = locate(src, a["sel"])
                    cond = a["contains"] in src[x:y]
            except Undecided:
                cond = False
            stack_if.append(cond)
            continue
        if st.startswith("//@ELSE"):
            stack_if[-1] = not stack_if[-1]
            continue
        if st.startswith("//@ENDIF"):
            stack_if.pop()
            continue
        if all(stack_if):
            pre.append(l)
    lines = pre
    while i < len(lines):
        l = lines[i]
        if l.strip().startswith("//@ITEM"):
            args = dict(re.findall(r"(\w+)=((?:(?! \w+=).)+)", l.strip()[len("//@ITEM"):].strip()))
            args = {k: v.strip() for k, v in args.items()}
            if "file" not in args or "sel" not in args:
                raise Undecided(f"bad //@ITEM line: {l}")
            spec, loops, before, after, rew, forloops, loopends, bodystart, bodyend = [], [], [], [], [], [], [], [], []
            optloops = set()
            optghost = set()
            cur = None
            i += 1
            while i < len(lines) and not lines[i].strip().startswith("//@END"):
                s = lines[i].strip()
                if not s:
                    if cur is not None: cur.append(lines[i])
                elif s.startswith("//@SPEC"):
                    cur = spec
                elif s.split()[0] == "//@LOOP":
                    cur = []
                    if s.split()[1].endswith("?"): optloops.add(int(s.split()[1].rstrip("?")))   # `//@LOOP k?`: skipped when the function has fewer loops
                    loops.append((int(s.split()[1].rstrip("?")), cur))
                elif s.startswith("//@BODYSTART"):     # lines inserted right after the function body's opening brace
                    cur = bodystart
                elif s.startswith("//@BODYEND"):       # ghost lines right before the function body's closing brace
                    cur = bodyend
                elif s.startswith("//@LOOPEND"):
                    cur = []
                    if s.split()[1].endswith("?"): optloops.add(int(s.split()[1].rstrip("?")))
                    loopends.append((int(s.split()[1].rstrip("?")), cur))
                elif s.startswith("//@AFTERLOOP"):     # ghost lines right after the closing brace of loop k
                    cur = []
                    if s.split()[1].endswith("?"): optloops.add(int(s.split()[1].rstrip("?")))
                    loopends.append((-int(s.split()[1].rstrip("?")), cur))
                elif s.startswith("//@FORLOOP"):
                    parts = s.split()
                    # //@FORLOOP k itname [into_shim next_shim]
                    forloops.append((int(parts[1]), " ".join(parts[2:])))
                    cur = None
                elif s.startswith("//@BEFORE") or s.startswith("//@AFTER"):
                    parts = s.split(None, 2)
                    cur = []
                    if parts[1].endswith("?"):      # `//@AFTER k? snippet`: a pure hint; dropped when its splice point is gone
                        sn_ = parts[2][5:].strip() if parts[2].startswith("stmt:") else parts[2]
                        optghost.add((int(parts[1].rstrip("?")), sn_))
                    (before if s.startswith("//@BEFORE") else after).append((int(parts[1].rstrip("?")), parts[2], cur))
                elif s.startswith("//@REWRITE"):
                    parts = s.split(None, 2)
                    frm, to = parts[2].split("==>", 1)
                    rew.append((parts[1], frm.strip(), to.strip()))
                    cur = None
                elif cur is not None:
                    cur.append(lines[i])
                i += 1
            if i >= len(lines):
                raise Undecided("template: //@ITEM without //@END")
            src = read_file(args["file"])
            a, b = locate(src, args["sel"])
            item_text = src[a:b]
            orig_item_text = item_text
            n_vis = len(re.findall(r"\bpub\((?:super|crate)\)", item_text))
            if n_vis:
                item_text = re.sub(r"\bpub\((?:super|crate)\)", "pub", item_text)
                rewrites_log.append({"rule": "R4", "item": args["sel"], "from": "pub(super|crate)", "to": "pub", "count": n_vis})
            src_line = src.count("\n", 0, a) + 1
            if "lift_after" in args:
                # R29 closure lifting: the `{ .. }` block that follows the literal anchor inside the located fn (a closure body) becomes
                # the body of a function with the signature given by `as=`; captured variables become parameters. Block text verbatim.
                anchor = args["lift_after"]
                pos = item_text.find(anchor)
                if pos < 0 or "as" not in args:
                    raise Undecided(f"lost anchor: lift_after `{anchor}` not found in {args['sel']}")
                ct_ = code_tokens(tokenize(item_text))
                kb = next((j for j, t in enumerate(ct_) if t[0] == "punct" and t[1] == "{" and t[2] >= pos + len(anchor.rstrip()) - 1), None)
                if kb is None:
                    raise Undecided(f"lift_after `{anchor}`: no block follows in {args['sel']}")
                ke = match_brace(ct_, kb)
                item_text = args["as"] + " " + item_text[ct_[kb][2]:ct_[ke][3]]
                rewrites_log.append({"rule": "R29", "item": args["sel"], "from": f"closure body after `{anchor}`", "to": args["as"], "count": 1})
            kind = args["sel"].split()[0]
            is_fn = "fn " in args["sel"] and not args["sel"].startswith(("struct", "enum", "const", "static", "type"))
            if is_fn:
                new_text = splice_fn(item_text, spec=spec, ret=args.get("ret"), loops=loops, before=before, after=after,
                                     rewrites=rew, strip_pub=(args.get("strip", "pub") == "pub"), log=rewrites_log, sel=args["sel"], forloops=forloops, loopends=loopends, bodystart=bodystart, bodyend=bodyend, optloops=optloops, optghost=optghost)
            else:
                new_text = item_text
                for rule, frm, to in rew:
                    new_text, cnt = apply_rewrite(new_text, frm, to)
                    if cnt == 0 and not rule.endswith("?"):
                        raise Undecided(f"rewrite {rule} `{frm}` no longer applies in {args['sel']}")
                    rewrites_log.append({"rule": rule, "item": args["sel"], "from": frm, "to": to, "count": cnt})
            lo = len(out_lines) + 1
            out_lines.extend(new_text.split("\n"))
            hi = len(out_lines)
            items.append({"sel": args["sel"], "file": args["file"], "src_line": src_line, "hash": sha(orig_item_text),
                          "line_lo": lo, "line_hi": hi, "is_fn": is_fn, "spec_clauses": sum(1 for s in spec if s.strip())})
            i += 1
            continue
        out_lines.append(l)
        i += 1
    text = "\n".join(out_lines)
    # region map from markers
    stack = []
    for n, l in enumerate(out_lines, 1):
        for m in re.finditer(r"/\*@(SPEC|LOOP|GHOST)-(BEGIN|END)\s*([^*]*)\*/", l):
            if m.group(2) == "BEGIN":
                stack.append((m.group(1), m.group(3).strip(), n))
            elif stack:
                k, lab, lo = stack.pop()
                regions.append({"kind": k.lower(), "label": lab, "line_lo": lo, "line_hi": n})
    # closure literals without a contract annotation in the exec text of each extracted fn (outside spliced spec / ghost regions):
    # Verus knows nothing about what such a closure does, so a proof that has to look inside one can only fail for lack of
    # information. verus.py compares this list with the committed baseline (engine/closures_baseline.json): a failure in an item
    # that GAINED an unannotated closure is reported as undecided, not as a violation.
    closure_irrelevant = set(l.split()[1] for l in template_text.split("\n") if l.strip().startswith("//@CLOSURE-IRRELEVANT") and len(l.split()) > 1)
    for it in items:
        if not it.get("is_fn"):
            continue
        body = "\n".join(out_lines[it["line_lo"] - 1:it["line_hi"]])
        body = re.sub(r"/\*@(SPEC|LOOP|GHOST)-BEGIN.*?/\*@(?:SPEC|LOOP|GHOST)-END\*/", " ", body, flags=re.S)
        body = re.sub(r"//[^\n]*", "", body)
        found = []
        for m in re.finditer(r"(?:[(,=]|\breturn\b|\bmove\b)\s*(?:move\s+)?\|([^|{}();]*)\|\s*(\S{0,8})", body):
            nxt = m.group(2)
            if nxt.startswith("->") or nxt.startswith("requires") or nxt.startswith("ensures"):
                continue
            # the closure's own text: parameters + body up to the first `,` `;` or unbalanced closing bracket at depth 0 (<= 80 chars)
            j, depth, stop = m.end(1) + 1, 0, len(body)
            k = j
            while k < stop and k - j < 80:
                ch = body[k]
                if ch in "([{": depth += 1
                elif ch in ")]}":
                    if depth == 0: break
                    depth -= 1
                elif ch in ",;" and depth == 0: break
                k += 1
            # the call this closure is an argument of: closures handed to a function whose (stub) contract ignores the
            # closure's verdict altogether (template directive `//@CLOSURE-IRRELEVANT name`) carry no information either way
            q, dep, callee = m.start(), 0, None
            while q > 0:
                q -= 1
                if body[q] in ")]}": dep += 1
                elif body[q] in "([{":
                    if dep == 0:
                        mm_ = re.search(r"(\w+)\s*(?:::\s*<[^<>]*>\s*)?$", body[:q])
                        callee = mm_.group(1) if mm_ else None
                        break
                    dep -= 1
            if callee and callee in closure_irrelevant:
                continue
            found.append(re.sub(r"\s+", " ", "|" + m.group(1).strip() + "| " + body[j:k].strip()))
        it["unannotated_closures"] = found
    return text, {"items": items, "rewrites": rewrites_log, "regions": regions}
