"""Kani route: build a scratch copy of /repo's *current working tree*, splice contract attributes and
harness modules (cfg(kani) only) into the real source files, run cargo kani per harness, parse CBMC's
per-check table into named obligations, and try to replay counterexamples against the real code."""
import concurrent.futures, os, re, shutil, time
from common import *

KANI_FLAGS = ["-Z", "function-contracts", "-Z", "stubbing"]

CONFIG_TOML = """[source.crates-io]
replace-with = "vendored"
[source.vendored]
directory = "%s"
[net]
offline = true
"""

REPLAY_SHIM = r'''
#[cfg(all(verif_replay, not(kani)))]
#[allow(dead_code, unused_macros, unused_imports)]
pub(crate) mod kani {
    pub fn assume(c: bool) { if !c { panic!("REPLAY-ASSUME-VIOLATED"); } }
    pub fn any<T: Default>() -> T { T::default() }
    pub use crate::__verif_cover as cover;
}
#[cfg(all(verif_replay, not(kani)))]
#[macro_export]
#[doc(hidden)]
macro_rules! __verif_cover { ($($t:tt)*) => {}; }
'''


class Workspace:
    def __init__(self, prop, tag="ws"):
        self.prop = prop
        # fixed scratch path per property (lets cargo's fingerprints hit across runs); a concurrent run of the same
        # property falls back to a pid-specific path
        base = os.path.join(SCRATCH_ROOT, prop)
        self.lock = None
        try:
            os.makedirs(SCRATCH_ROOT, exist_ok=True)
            fd = os.open(base + ".lock", os.O_CREAT | os.O_RDWR)
            import fcntl
            fcntl.flock(fd, fcntl.LOCK_EX | fcntl.LOCK_NB)
            self.lock = fd
        except OSError:
            base = os.path.join(SCRATCH_ROOT, f"{prop}-{os.getpid()}")
        self.root = os.path.join(base, tag)
        self.diffs = []

    def create(self):
        if not os.path.isdir(VENDOR) or not os.listdir(VENDOR):
            raise Undecided("vendor directory missing: run MANIFEST.setup_cmd first")
        shutil.rmtree(self.root, ignore_errors=True)
        os.makedirs(self.root)
        rc, out, _, _ = run(["rsync", "-a", "--exclude", "/target", "--exclude", ".git", "--exclude",
                             "rust-toolchain.toml", REPO + "/", self.root + "/"])
        if rc != 0:
            raise Undecided("rsync of /repo failed: " + out[-500:])
        os.makedirs(os.path.join(self.root, ".cargo"), exist_ok=True)
        write(os.path.join(self.root, ".cargo", "config.toml"), CONFIG_TOML % VENDOR)
        return self

    def destroy(self):
        shutil.rmtree(self.root, ignore_errors=True)
        try:
            os.rmdir(os.path.dirname(self.root))
        except OSError:
            pass
        if self.lock is not None:
            try:
                os.close(self.lock)
            except OSError:
                pass
            self.lock = None

    def path(self, rel):
        return os.path.join(self.root, rel)

    def insert_before(self, rel, anchor_regex, text, nth=0):
        """Insert `text` (lines) directly before the nth line matching anchor_regex. Lost anchor => Undecided."""
        p = self.path(rel)
        lines = read(p).split("\n")
        hits = [i for i, l in enumerate(lines) if re.search(anchor_regex, l)]
        if len(hits) <= nth:
            raise Undecided(f"lost anchor /{anchor_regex}/ (#{nth}) in {rel}")
        i = hits[nth]
        # move above attributes / doc comments directly attached to the item
        indent = re.match(r"\s*", lines[i]).group(0)
        ins = [indent + t for t in text.strip("\n").split("\n")]
        lines[i:i] = ins
        write(p, "\n".join(lines))
        self.diffs.append({"file": rel, "kind": "insert_before", "anchor": anchor_regex, "lines": len(ins)})

    def append_module(self, rel, modname, body):
        p = self.path(rel)
        if not os.path.exists(p):
            raise Undecided(f"lost anchor: file {rel} missing")
        text = read(p)
        text += f"\n\n#[cfg(any(kani, verif_replay))]\n#[allow(dead_code, unused_imports, unused_variables, unused_mut, deprecated)]\nmod {modname} {{\n#[cfg(not(kani))]\nuse crate::kani;\n{body}\n}}\n"
        write(p, text)
        self.diffs.append({"file": rel, "kind": "append_module", "module": modname, "lines": body.count("\n") + 1})

    def append_raw(self, rel, body):
        p = self.path(rel)
        if not os.path.exists(p):
            raise Undecided(f"lost anchor: file {rel} missing")
        write(p, read(p) + "\n" + body + "\n")
        self.diffs.append({"file": rel, "kind": "append_raw", "lines": body.count("\n") + 1})


CHECK_RE = re.compile(r"^Check (\d+): (.+)\n\s+- Status: (\S+)\n\s+- Description: \"(.*)\"\n(?:\s+- Location: (.*)\n)?", re.M)


def parse_kani(out):
    """-> dict(checks=[...], verdict, failed=[...], covers=[...], stubs=[...])."""
    checks = []
    for m in CHECK_RE.finditer(out):
        checks.append({"id": m.group(2), "status": m.group(3), "desc": m.group(4), "loc": (m.group(5) or "").strip()})
    res = {"checks": checks}
    res["successful"] = "VERIFICATION:- SUCCESSFUL" in out
    res["failed_line"] = "VERIFICATION:- FAILED" in out
    res["stubs"] = re.findall(r"^\s*- Stub: (.*)$", out, re.M)
    res["failed_summary"] = re.findall(r"^Failed Checks: (.*)$", out, re.M)
    return res


def classify_failure(c):
    d = c["desc"]
    if d.startswith("NaN on") :
        return "ignored-float-nan"        # Rust float arithmetic does not panic on NaN
    if "unwinding assertion" in d or "recursion unwinding" in d:
        return "unwind"
    if "is not currently supported by Kani" in d or "unsupported" in d.lower() and "kani" in d.lower():
        return "unsupported"
    return "semantic"


def run_harness(ws, crate, harness, cargo_args=(), timeout=600, mem_gb=12, extra=(), target_dir=None, playback=False):
    env = dict(os.environ)
    env["CARGO_NET_OFFLINE"] = "true"
    env["CARGO_TARGET_DIR"] = target_dir or os.path.join(CACHE, "kani-target", crate)
    env.pop("RUSTUP_TOOLCHAIN", None)
    cmd = ["cargo", "kani", "-p", crate] + list(cargo_args) + KANI_FLAGS + ["--harness", harness, "--exact"]
    if playback:
        cmd += ["-Z", "concrete-playback", "--concrete-playback=print"]
    cmd += list(extra)      # last: `--cbmc-args` swallows everything after it
    rc, out, secs, to = run(cmd, cwd=ws.root, timeout=timeout, env=env, mem_gb=mem_gb)
    return {"cmd": " ".join(cmd), "rc": rc, "out": out, "secs": secs, "timed_out": to}


def codegen(ws, crate, cargo_args=(), timeout=1800, target_dir=None):
    env = dict(os.environ)
    env["CARGO_NET_OFFLINE"] = "true"
    env["CARGO_TARGET_DIR"] = target_dir or os.path.join(CACHE, "kani-target", crate)
    env.pop("RUSTUP_TOOLCHAIN", None)
    cmd = ["cargo", "kani", "-p", crate] + list(cargo_args) + KANI_FLAGS + ["--only-codegen"]
    rc, out, secs, to = run(cmd, cwd=ws.root, timeout=timeout, env=env)
    return {"cmd": " ".join(cmd), "rc": rc, "out": out, "secs": secs, "timed_out": to}


def extract_concrete_vals(out):
    """Parse the unit tests Kani prints with --concrete-playback=print -> list of candidate value lists (one list of byte
    lists per printed test; Kani prints one test per failed check AND per satisfied cover, so the caller tries them in turn)."""
    cands = []
    for m in re.finditer(r"let concrete_vals: Vec<Vec<u8>> = vec!\[(.*?)\n\s*\];", out, re.S):
        vals = []
        for vm in re.finditer(r"vec!\[([0-9,\s]*)\]", m.group(1)):
            s = vm.group(1).strip()
            vals.append([int(x) for x in s.split(",") if x.strip()] if s else [])
        if vals not in cands:
            cands.append(vals)
    return cands or None
