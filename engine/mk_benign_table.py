#!/usr/bin/env python3
"""markdown table of /verif/benign/*/meta.json: behaviour-preserving refactorings (independent agents) vs the registered quick checks.
`--update-design` rewrites the block between the BENIGN-TABLE markers of DESIGN.md."""
import glob, json, os, sys
root = os.path.dirname(os.path.dirname(os.path.abspath(__file__)))
rows = []
for f in sorted(glob.glob(os.path.join(root, "benign", "*", "meta.json"))):
    m = json.load(open(f)); e = m["evaluated_by_us"]
    why = next((l for l in e["lines"] if l.startswith(("UNDECIDED", "VIOLATION"))), "")
    rows.append((os.path.basename(os.path.dirname(f)), e["property"], (m.get("kind") or "")[:60], (m.get("summary") or "")[:140].replace("|", "/"), e["verdict"], why[:150].replace("|", "/")))
lines = ["| refactoring | property | kind | what it does | verdict | reason when not exit 0 |", "|---|---|---|---|---|---|"]
for r in rows: lines.append("| " + " | ".join(str(x).replace("\n", " ") for x in r) + " |")
n = len(rows); ok = sum(1 for r in rows if r[4].startswith("passes")); fa = sum(1 for r in rows if r[4].startswith("FALSE")); un = n - ok - fa
lines += ["", f"{n} behaviour-preserving refactorings: {fa} false alarms (exit 1), {ok} verified again (exit 0), {un} undecided (exit 2)."]
text = "\n".join(lines)
if "--update-design" in sys.argv:
    p = os.path.join(root, "DESIGN.md"); d = open(p).read()
    a, b = d.index("<!-- BENIGN-TABLE-BEGIN -->") + len("<!-- BENIGN-TABLE-BEGIN -->"), d.index("<!-- BENIGN-TABLE-END -->")
    open(p, "w").write(d[:a] + "\n" + text + "\n" + d[b:])
else:
    print(text)
