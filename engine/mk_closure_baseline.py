#!/usr/bin/env python3
"""(re)generate engine/closures_baseline.json: for every Verus template of every READY property, the unannotated closure literals
present in each extracted fn on the CURRENT /repo tree. verus.py treats a failed obligation inside an item that gained a closure not
in this list as undecided (exit 2): Verus knows nothing about an unannotated closure, so such a failure is lack of information, not
evidence. Regenerate only on a tree where every check passes."""
import importlib.util, json, os, sys
sys.path.insert(0, os.path.dirname(os.path.abspath(__file__)))
from common import *
import extract, verus
out = {}
for prop in open(os.path.join(VERIF, "contracts", "READY")).read().split():
    p = os.path.join(VERIF, "contracts", prop, "plan.py")
    spec = importlib.util.spec_from_file_location("plan_" + prop, p); m = importlib.util.module_from_spec(spec); spec.loader.exec_module(m)
    for t in m.PLAN.get("verus", []):
        tp = os.path.normpath(os.path.join(VERIF, "contracts", prop, t["template"]))
        key = os.path.relpath(tp, os.path.join(VERIF, "contracts"))
        if key in out: continue
        text, meta = extract.compose(read(tp), REPO, verus.repo_reader(REPO))
        out[key] = {it["sel"]: it.get("unannotated_closures", []) for it in meta["items"] if it.get("is_fn")}
json.dump(out, open(os.path.join(VERIF, "engine", "closures_baseline.json"), "w"), indent=1, sort_keys=True)
print(sum(len(v) for v in out.values()), "items,", sum(len(c) for v in out.values() for c in v.values()), "baseline closures")
