#!/usr/bin/env python3
"""Regenerate MANIFEST.json from contracts/*/plan.py (+ the table below)."""
import importlib.util, json, os, sys
VERIF = os.path.dirname(os.path.dirname(os.path.abspath(__file__)))
ALL = [f"C{i:02d}" for i in range(1, 21)]
NA = {
    "C11": "all clauses but the per-connection write path live inside the mio event loop run_transport (sockets, channel, token map): no function boundary a contract can name. DESIGN.md section 4 C11.",
    "C17": "label merging happens in tracing_subscriber::Layer callbacks driven by a foreign registry, with state in type-erased span extensions and a global object pool; no function with a nameable pre/post-state without modelling tracing-subscriber. DESIGN.md section 6.",
}
def load(prop):
    p = os.path.join(VERIF, "contracts", prop, "plan.py")
    if not os.path.exists(p): return None
    spec = importlib.util.spec_from_file_location("plan_" + prop, p)
    m = importlib.util.module_from_spec(spec); spec.loader.exec_module(m)
    return m.PLAN
# only properties whose check has been integrated and passes on the current tree are claimed
READY = [l.strip() for l in open(os.path.join(VERIF, "contracts", "READY")).read().split() if l.strip()]
checks, na = [], []
for prop in ALL:
    plan = load(prop) if prop in READY else None
    if plan is None or plan.get("disabled"):
        na.append({"property_id": prop, "reason": NA.get(prop, (plan or {}).get("disabled") or "no contract-based check has been built for this property yet; see DESIGN.md section 4 for the plan")})
        continue
    m = plan["manifest"]
    checks.append({
        "property_id": prop,
        "quick_cmd": f"bin/vcheck {prop} --tier quick",
        "thorough_cmd": f"bin/vcheck {prop} --tier thorough",
        "evidence_file": f"/verif/evidence/{prop}.json",
        "replay_cmd_template": f"bin/vcheck {prop} --replay {{path}}",
        "engine": m.get("engine", "vcheck"),
        "level_claimed": {"category": plan.get("level", "proof"), "text": m["text"], "design_ref": f"DESIGN.md section 4, {prop}"},
        "level_note": m["note"],
        "technique": m["technique"] + ("; hand-derived witness tests (" + ", ".join(sorted({w["src"] for w in plan["witnesses"]})) + ") replay a failed obligation on the real crate and, where a changed function leaves the verified subset (exit 2 otherwise), confirm a violation by a concrete failing run -- a passing witness decides nothing" if plan.get("witnesses") else ""),
    })
man = {
    "version": 1,
    "setup_cmd": "python3 engine/setup_vendor.py",
    "hooks": {
        "guard": "metrics_rs_metrics_verif",
        "enable": "none needed: contracts and harness modules are spliced into a scratch copy of /repo's working tree under cfg(kani) (set by Kani itself) / extracted to a Verus file; the guard name is reserved and unused",
        "baseline_off_cmd": "cd /repo && cargo nextest run --workspace --no-fail-fast --test-threads 8 --offline",
        "source_commits": [],
        "add_only": True,
    },
    "engines": [
        {"name": "vcheck", "path": "bin/vcheck", "serves_properties": [c["property_id"] for c in checks],
         "kind_free_text": "python driver: Verus on items extracted verbatim from /repo with contracts spliced in (engine/extract.py, engine/verus.py) + Kani function contracts / symbolic harnesses appended to the real source files in a scratch copy (engine/kani.py); counterexamples replayed as plain #[test]s on the real crate"},
    ],
    "checks": checks,
    "not_applicable": na,
    "notes": "exit 0 = all obligations discharged; exit 1 + VIOLATION line = a named obligation failed; exit 2 = undecided (tool limit, lost anchor, timeout) and is never an alarm. Known findings: /verif/known_findings.txt.",
}
json.dump(man, open(os.path.join(VERIF, "MANIFEST.json"), "w"), indent=1)
print(f"MANIFEST.json: {len(checks)} checks, {len(na)} not_applicable")
