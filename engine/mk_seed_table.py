#!/usr/bin/env python3
"""print a markdown table of /verif/seeded/*/meta.json (which checks catch which independently written changes)"""
import glob, json, os
# "expected, not run": the check was strengthened after reading the change's description and before its first run, so the first-run
# verdict is what the unstrengthened check would have given by construction, not an observed one.
# verdict of the FIRST run of the then-registered check against the change, where it differed from the final one, and what was
# changed in the machinery afterwards (hand-maintained; the final verdict column is regenerated from seeded/*/meta.json)
FIRST = {
    # ---- wave 6
    "C05-w6m1-atomicbucket-is-empty-is-simplified-to-look-at-t": "exit 2 (the harness named crossbeam's Guard through the file's imports, which the change removed) -> imports spelled out in the harness; reported by c05b_is_empty_states",
    "C05-w6m2-clear-with-s-reclamation-is-simplified-optimised": "exit 2 (the harness named DEFERRED_BLOCK_BATCH_SIZE, removed by the change) -> constant no longer used; reported by c05b_reclaim_only_deferred",
    "C06-w6m1-key-with-extra-labels-is-rewritten-to-clone-the": "exit 0 under C06's check (the change is in key.rs, which C03's check owns: reported there)",
    "C06-w6m2-in-get-or-create-counter-gauge-histogram-the-rea": "exit 2 (no read-side from_hash in the hashbrown stub) -> stub method + contract assert 'op is handed the storage the shard maps THIS key to'",
    "C07-w6m1-atomicbucket-clear-with-and-data-with-now-wait-f": "exit 0 under C07's check (the change is in bucket.rs, which C05's check owns: reported there)",
    "C09-w6m1-payloads-drop-the-end-of-a-drain-flush-cycle-no": "exit 2 (Vec::drain outside vstd) -> witness confirmation (witness_flush_cycle.rs: a flush dropped early still leaves a fresh writer)",
    "C10-w6m1-client-send-forwarder-sync-rs-unix-stream-arm-ma": "exit 0 (socket I/O was out of scope) -> send.verus.rs: Ok(n) only for the whole payload",
    "C10-w6m2-state-flush-state-rs-the-three-copies-of-let-pre": "exit 2 (declared rewrite no longer applies: new helper method) -> witness confirmation (witness_flush_timestamps.rs)",
    "C11-w6m2-in-run-transport-s-per-client-event-branch-the-e": "exit 0 (the per-client arm had no contract) -> arm.verus.rs (lifted): removal only under the licence of a failed write",
    "C12-w6m1-recency-should-store-is-rewritten-on-top-of-the": "exit 2 (lost splice point) -> witness confirmation (witness_reregistered.rs)",
    "C12-w6m2-prometheus-inner-get-recent-metrics-no-longer-ta": "exit 2 (lost splice point) -> witness confirmation (witness_expired_label_sets.rs)",
    "C15-w6m2-in-inner-render-metrics-exporter-prometheus-src": "exit 0 under C15's check (render is C08's: reported there, render's distribution-type assert)",
    "C17-w6m1-metricslayer-on-new-span-no-longer-asks-the-regi": "exit 2 (Attributes::parent outside the template) -> witness confirmation (witness_span_tree.rs)",
    # ---- wave 5
    "C01-w5m1-with-local-recorder-no-longer-holds-a-localrecor": "exit 0 (Kani does not unwind; with_local_recorder's structure was unclaimed) -> scope.verus.rs (closure runs while the guard is alive and armed, R44) + witness_panic_scope.rs",
    "C03-w5m1-in-key-hasher-impl-metrics-src-key-rs-the-branch": "exit 2 (declared rewrite of the sort idiom no longer applies) -> witness confirmation (witness_many_labels.rs: 21+ labels, repeated names, several supply orders)",
    "C03-w5m2-partialeq-for-metrics-cow-metrics-src-cow-rs-gai": "exit 0 under C03's check (the change is in cow.rs, which C14's check owns: reported there, c14_str_alias_eq)",
    "C08-w5m2-the-help-type-header-code-that-was-repeated-thre": "exit 2 (render restructured around a new helper) -> witness confirmation (witness_render_families.rs)",
    "C13-w5m1-router-route-replaces-trie-get-ancestor-key-clos": "exit 2 (closure rule) -> reported by Router::route's postcondition once the demoted failure is confirmed by witness_router.rs (brute-force longest prefix)",
    "C13-w5m2-filterlayer-layer-no-longer-compiles-all-configu": "exit 2 (new helper method outside the template) -> witness confirmation (witness_filter.rs against str::contains)",
    "C16-w5m2-refactors-drain-from-manual-len-idx-bookkeeping": "exit 2 (the Kani harnesses read Drain's removed fields: build failure) -> witness confirmation extended to Kani build failures (witness_drain.rs)",
    "C18-w5m1-per-connection-allowlist-check-is-turned-from-a": "exit 2 (declared rewrite of iter().any(..) no longer applies) -> witness confirmation (witness_serve.rs: real listener, nested networks)",
    # ---- round 4 (wave 4 and older changes re-decided in round 4)
    "C19-w4m1-debuggingrecorder-describe-metric-is-simplified": "exit 2 (the contract assert was anchored on a code line of the old body) -> anchored at //@BODYEND; reported by the proof",
    "C19-w4m2-snapshotter-snapshot-gains-an-optimisation-for-h": "exit 2 (closure rule) -> witness confirmation (witness_registered_listed.rs fails on the real crate)",
    "C17-w4m2-tracingcontext-enhance-key-is-reordered-to-save": "exit 2 (declared rewrite no longer applies: iterator-adapter pipeline) -> witness confirmation on extraction failure (witness_enhanced.rs)",
    "C06-w4m1-get-or-create-counter-gauge-histogram-the-slow-p": "exit 2 (`|_|` closure parameter outside Verus' subset) -> R41/R42 and hashbrown's raw-entry uniqueness contract as precondition of or_insert*/insert",
    "C06-w4m2-metrics-src-key-rs-key-hasher-impl-two-label-fas": "exit 0 under C06's check (the change is in key.rs, which C03's check owns: reported there, key_hasher_impl/ensures)",
    "C05-w4m1-block-is-quiesced-is-simplified-it-loads-the-wri": "exit 2 (the harness used the file's `min` import, which the change removed) -> harnesses spell core::cmp::min",
    "C10-w4m2-atomichistogram-flush-unsampled-raw-arm-no-longe": "exit 0 (AtomicHistogram had no contract) -> hist.verus.rs: usage contract (flush drains only with the atomic take-and-deliver)",
    "C12-w4m2-impl-histogramfn-for-generational-t-gains-a-reco": "exit 0 (the harness enumerated the counter / gauge entry points only) -> c12_generational_hist (every HistogramFn entry point)",
    "C07-w4m1-histogram-record-many-metrics-util-no-longer-tal": "exit 0 under C07's check (the change is in metrics-util's Histogram, which C15's check owns: reported there, c15_record_many_contract)",
    "C07-w4m2-prometheusrecorder-add-description-if-missing-no": "exit 2 (`hash_map::Entry` not in scope in the template) -> import + SharedString str stubs; vstd specifies Entry::{Occupied,Vacant}",
    "C15-w3m1-distributionbuilder-new-sorts-the-bucket-overrid": "exit 0 (collect+sort was 'covered by inspection only') -> builder.verus.rs (lifted closure, R39 helper pulled, R38)",
    "C15-w3m2-rollingsummary-add-replaces-the-step-by-step-sea": "exit 0 (add with stored buckets was not machine-checked) -> rolling.verus.rs (unbounded contract on add)",
    "C08-help-escaped-only-with-linefeed": "exit 2 (str::contains outside vstd) -> global rewrite R40",
    "C07-redescribe-with-unit-replaces-help": "exit 2 (`hash_map::Entry` not in scope) -> import; reported by the first-description-wins assert",
    "C18-plain-ipv6-becomes-slash32": "exit 2 (IpNet::new / split_once outside the template) -> witness confirmation (witness_plain_ip.rs: a plain IPv6 address stands for that host only)",
    "C19-histogram-blocks-overwritten": "exit 2 (R17 exact-text rewrite) -> witness confirmation (150 values across storage blocks)",
    "C07-counter-rendered-through-f64": "exit 2 (lost anchor) -> witness confirmation (witness_render_totals.rs: 2^53 + 3 rendered exactly)",
    "C07-drain-keeps-last-block-only": "exit 2 (R17 exact-text rewrite) -> witness confirmation (witness_render_totals.rs: 200 samples across blocks)",
    "C09-global-labels-dropped-without-own-labels": "exit 2 (lost anchor: enumerate() pipeline) -> witness confirmation (witness_trailer.rs)",
    "C10-idle-never-cleared": "exit 2 (a contracted helper was deleted) -> witness confirmation (witness_idle_cycle.rs: two idle periods)",
    "C20-w3m1-recoveryhandle-into-inner-no-longer-retries-arc-": "exit 2 (spin on strong_count never ends without environment progress) -> c20_into_inner_vs_starting_emissions_rg (environment acts on loads of the strong count too; an emission may start between check and act)",
    "C05-w3m1-atomicbucket-clear-with-destroys-every-full-batc": "exit 0 (epoch reclamation was out of the harnesses' reach) -> c05b_reclaim_only_deferred (33-block chain, epoch held back, Shared::into_owned stubbed to assert!(false): never executed by the real code under that schedule)",
    "C09-prefix-separator": "exit 2 (Option::map_or outside vstd) -> prelude of assumed Option combinators",
    "C09-uncommitted-check-prefixed": "exit 2 (ghost anchor was the edited line) -> structural anchors",
    "C06-overwrite-on-lost-race": "exit 2 (RawEntryMut::insert not in the stub) -> stub widened, no-overwrite as stub precondition",
    "C12-expired-histogram-labels": "exit 0 (recorder.rs glue had no contract) -> contracts/C07/recorder.verus.rs",
    "C08-type-from-family-name": "exit 0 (render had no contract) -> render state machine contract",
    "C07-global-label-sanitised-at-config": "exit 0 (configuration side unclaimed) -> contract on add_global_label",
    "C18-peer-addr-expect-kills-listener": "exit 0 (serving clauses unclaimed) -> serve.verus.rs",
    "C11-partial-write-tail-requeued": "exit 0 expected, not run (conservation alone holds for a re-queued remainder) -> is_suffix clause on the queue",
    "C11-drop-oldest-counts-parked-buffer": "exit 0 (run_transport had no boundary) -> fan-out body lifted (R29) and contracted",
    "C16-drain-drop-subtracts-instead-of-reset": "exit 0 (sequential harnesses only) -> late-push interleaving harness",
    "C16-fastrand-inclusive-range": "exit 0 expected, not run (fastrand itself was a trusted stub) -> fastrand.verus.rs",
    "C01-panicking-drop-clears-instead-of-restoring": "exit 0 (Kani does not unwind; thread::panicking() is constant false) -> Drop contract re-proved with panicking() stubbed to true",
    "C01-computed-name-key-cached-per-callsite": "exit 0 expected (each call site was executed once per harness) -> call-site-twice harness, added after reading the change's summary and before its run",
    "C05-quiesce-head-block-only": "exit 0 (bucket level was unreachable for Kani) -> epoch stubs (pin, decompose_tag, snooze) and designed-state bucket harnesses",
    "C03-get-hash-flag-before-value": "exit 0 (the R/G stubs covered load/store only; the change publishes the flag with swap) -> swap / fetch_or / compare_exchange on the flag stubbed with the same guarantee",
    "C03-cow-eq-pointer-fast-path": "exit 0 under C03's and C14's checks (no two values sharing a start address were compared) -> C14 harness c14_str_alias_eq; reported by the C14 check (the change is in cow.rs)",
    "C14-clone-empty-owned-aliases": "exit 0 in the quick tier (the empty-but-allocated owned Vec was a thorough-tier case) -> quick harness c14_slice_owned_empty",
    "C20-describe-dropped-when-busy": "exit 0 (every harness had one emission at a time) -> c20_weak_live_busy with parked in-flight references",
    "C13-router-raw-ancestor": "exit 0 (Kani could not stub get_ancestor and ran the real trie in two trivial states) -> glue.verus.rs contract on Router::route with the documented contracts of get_ancestor / get_raw_ancestor",
    "C13-filter-case-insensitive-dfa-only": "exit 0 (how FilterLayer::layer configures the automaton was an assumption) -> glue.verus.rs contract on FilterLayer::layer over a settings-recording builder stub",
    "C10-hist-prefix-separator-in-writer": "same (written against C10, the change is in writer.rs: reported by C09's check; C10's own check does not include the writer)",
    "C04-increment-saturates": "exit 2 (std fetch_update's retry loop had no unwinding bound in the loop-free harness: timeout) -> unwind(3) on the counter harnesses",
    "C04-absolute-single-cas": "exit 0 (sequentially identical) -> R/G harness c04_counter_absolute_rg (other threads raise the counter before every atomic step)",
    "C09-gauge-format-finite": "exit 2 (ryu stub had no format_finite) -> stub method with ryu's documented precondition (finite input)",
    "C08-label-key-leading-digit-unsanitised": "exit 0 (key_to_parts glue was only in C07's plan) -> labels template added to C08's plan; the change rewrites the format!/map/collect chain that R20 replaces, so it is now reported as undecided",
    "C06-clear-skips-last-shard": "exit 0 (Registry::clear had no contract) -> shard-accounting contract on clear; the change fuses the three loops, which the loop-indexed invariants cannot follow, so it is now reported as undecided",
    "C19-gauge-fast-path-uses-counter-lookup": "exit 0 (the register_* methods had no contract) -> contracts on register_counter / gauge / histogram: handle backed by THIS kind's storage, key tracked under THIS kind",
    "C19-idle-histogram-not-listed": "exit 2 (Bucket stub had no is_empty) -> stub method; the listing contract of snapshot then fails; round 4: the rewritten arm gains closures (closure rule) -> witness confirmation (witness_registered_listed.rs)",
    "C06-delete-by-hash-only": "reported at first (the weak from_hash stub made ANY predicate closure unprovable, also a correct one) -> since the closure rule (a failure in a function that gained a closure without a contract is undecided) it is exit 2: honest, the earlier report was right for the wrong reason; round 4: R43 annotates the boolean predicate closure with its own body and from_hash is specified over the predicate's verdict -> reported again, while the correct variant `|k| k == key` ends undecided (generic == has no exec/spec link)",
    "C18-covered-check-uses-network-base": "exit 2 (IpNet stub lacked contains(&IpNet) / network()) -> stub widened and the contract restated over what the list ADMITS; the change still ends undecided because its test sits in a new closure (and a correct de-duplication would otherwise have been flagged: that false alarm is what the closure rule prevents); round 4: witness confirmation (witness_plain_ip.rs: a later, wider network must be honoured)",
    "C11-wake-only-when-queue-was-empty": "exit 0 (the enqueue side had no contract) -> state.verus.rs: ghost accounting 'an enqueue attempt is followed by a wake'",
    "C11-first-description-sticks": "exit 0 (the metadata arm of run_transport had no boundary) -> arm lifted (R29) and contracted: latest unit / description win",
    "C17-histogram-closure-captures-outer-key": "exit 0 (the register_* forwarders had no contract) -> forwarding contracts on the three methods (a one-line variant of the change is reported); the change itself introduces a helper with closures that is outside the template, so it now ends undecided",
    "C17-allowlist-binary-search-unsorted": "same (the change swaps the HashSet for a Vec: the representation-dependent spec no longer type-checks)",
    "C01-w3m2-histogram-s-level-only-arm-still-matches-the-who": "exit 0 (the level-only prefix form was exercised without labels) -> harness c01_macro_level_only_labels",
    "C16-w3m2-drain-sample-rate-computes-self-len-as-f64-unsam": "exit 0 (the rate was only read before the first next()) -> c16_rate_and_reset with an arbitrary number of values already taken",
    "C20-w3m2-weakrecorder-describe-counter-gauge-histogram-up": "exit 0 (no harness described with unit None AND an empty description) -> the second description of the argument table is the empty string",
    "C14-w3m2-clone-shared-cow-clone-for-the-shared-kin": "exit 0 (every element type in the harnesses had alignment <= 8) -> c14_slice_shared_overaligned (align 32)",
    "C17-new-span-merges-current-not-parent": "exit 2 expected, not run (Context stub lacked lookup_current) -> stub widened",
    "C17-filter-sees-empty-value": "exit 2 expected, not run (closure annotation keyed to parameter names) -> annotation by position",
}
rows = []
for f in sorted(glob.glob(os.path.join(os.path.dirname(os.path.dirname(os.path.abspath(__file__))), "seeded", "*", "meta.json"))):
    m = json.load(open(f)); c = m["confirmed_by_us"]; chk = c.get("check", {})
    lines = chk.get("lines", [])
    ob = next((l.split("obligation=")[1][:110] for l in lines if l.startswith("VIOLATION")), "")
    why = next((l[:140] for l in lines if l.startswith("UNDECIDED")), "")
    verdict = "caught" if c.get("detected") else ("undecided (exit 2)" if chk.get("exit") == 2 else "missed (exit 0)")
    rows.append((c["id"], m.get("breaks_property"), (m.get("summary") or "")[:150].replace("|", "/"), verdict, ob or why, FIRST.get(c["id"], "same")))
import sys
lines = ["| seeded change | property | what it does | verdict now | failing obligation / reason | first run, and what changed |", "|---|---|---|---|---|---|"]
for r in rows:
    lines.append("| " + " | ".join(str(x).replace("\n", " ") for x in r) + " |")
caught = sum(1 for r in rows if r[3] == "caught"); first = sum(1 for r in rows if r[3] == "caught" and r[5].startswith("same"))
lines.append("")
lines.append(f"{len(rows)} changes: {caught} reported by a registered check now ({first} of them already on the first run), "
             f"{sum(1 for r in rows if r[3].startswith('undecided'))} undecided (exit 2), {sum(1 for r in rows if r[3].startswith('missed'))} missed (exit 0).")
text = "\n".join(lines)
if "--update-design" in sys.argv:
    p = os.path.join(os.path.dirname(os.path.dirname(os.path.abspath(__file__))), "DESIGN.md")
    d = open(p).read()
    a, b = d.index("<!-- SEED-TABLE-BEGIN -->") + len("<!-- SEED-TABLE-BEGIN -->"), d.index("<!-- SEED-TABLE-END -->")
    open(p, "w").write(d[:a] + "\n" + text + "\n" + d[b:])
else:
    print(text)
