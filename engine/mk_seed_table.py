#!/usr/bin/env python3
"""print a markdown table of /verif/seeded/*/meta.json (which checks catch which independently written changes)"""
import glob, json, os
rows = []
for f in sorted(glob.glob(os.path.join(os.path.dirname(os.path.dirname(os.path.abspath(__file__))), "seeded", "*", "meta.json"))):
    m = json.load(open(f)); c = m["confirmed_by_us"]; chk = c.get("check", {})
    lines = chk.get("lines", [])
    ob = next((l.split("obligation=")[1][:110] for l in lines if l.startswith("VIOLATION")), "")
    why = next((l[:140] for l in lines if l.startswith("UNDECIDED")), "")
    verdict = "caught" if c.get("detected") else ("undecided (exit 2)" if chk.get("exit") == 2 else "missed (exit 0)")
    rows.append((c["id"], m.get("breaks_property"), (m.get("summary") or "")[:150].replace("|", "/"), verdict, ob or why))
print("| seeded change | property | what it does | verdict | failing obligation / reason |")
print("|---|---|---|---|---|")
for r in rows:
    print("| " + " | ".join(str(x).replace("\n", " ") for x in r) + " |")
