#!/usr/bin/env python3
"""Build /verif/.vendor: a cargo 'directory source' made of hard links to every crate
already unpacked in ~/.cargo/registry/src/* (both registry hash dirs), so that Kani's own
cargo (which hashes the registry URL differently and therefore cannot see the repo's
dependencies) resolves everything offline.  Idempotent."""
import hashlib, json, os, shutil, subprocess, sys
HOME = os.path.expanduser("~")
REG = os.path.join(HOME, ".cargo", "registry")
OUT = os.path.join(os.path.dirname(os.path.dirname(os.path.abspath(__file__))), ".vendor")

def sha256(p):
    h = hashlib.sha256()
    with open(p, "rb") as f:
        for b in iter(lambda: f.read(1 << 20), b""):
            h.update(b)
    return h.hexdigest()

def main():
    os.makedirs(OUT, exist_ok=True)
    n = 0
    srcroot = os.path.join(REG, "src")
    for h in sorted(os.listdir(srcroot)):
        for crate in sorted(os.listdir(os.path.join(srcroot, h))):
            src = os.path.join(srcroot, h, crate)
            dst = os.path.join(OUT, crate)
            if not os.path.isdir(src) or os.path.exists(os.path.join(dst, ".cargo-checksum.json")):
                continue
            cratefile = os.path.join(REG, "cache", h, crate + ".crate")
            if not os.path.exists(cratefile):
                # try the other hash dir's cache
                alts = [os.path.join(REG, "cache", hh, crate + ".crate") for hh in os.listdir(os.path.join(REG, "cache"))]
                alts = [a for a in alts if os.path.exists(a)]
                if not alts:
                    continue
                cratefile = alts[0]
            if os.path.exists(dst):
                shutil.rmtree(dst)
            r = subprocess.run(["cp", "-al", src, dst])
            if r.returncode != 0:
                shutil.copytree(src, dst)
            for junk in (".cargo-ok",):
                p = os.path.join(dst, junk)
                if os.path.exists(p):
                    os.unlink(p)
            with open(os.path.join(dst, ".cargo-checksum.json"), "w") as f:
                json.dump({"files": {}, "package": sha256(cratefile)}, f)
            n += 1
    print(f"vendor: {n} crates added, {len(os.listdir(OUT))} total in {OUT}")

if __name__ == "__main__":
    main()
