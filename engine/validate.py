#!/usr/bin/env python3
import json, sys, glob
import jsonschema
jsonschema.validate(json.load(open('/verif/MANIFEST.json')), json.load(open('/root/.vp/MANIFEST.schema.json')))
es = json.load(open('/root/.vp/EVIDENCE.schema.json'))
for f in sorted(glob.glob('/verif/evidence/C*.json')):
    jsonschema.validate(json.load(open(f)), es)
    print('valid', f)
print('manifest ok')
