"""Verus route, part 2: compose template + extracted items, run `verus file.rs`, map diagnostics to named obligations."""
import json, os, re, time
from common import *
import extract

UNDECIDED_PATTERNS = (
    "Resource limit (rlimit) exceeded", "rlimit", "not supported", "unsupported", "The verifier does not yet support",
    "is not supported", "cannot find", "unresolved", "mismatched types", "expected one of", "error[E",
    "internal error", "panicked", "ignored because", "could not", "Verus does not",
)


# the only diagnostics that are failed proof obligations; anything else is a tool/subset limit => exit 2
VERIFICATION_FAILURES = (
    "postcondition not satisfied", "precondition not satisfied", "precondition not met", "assertion failed", "invariant not satisfied",
    "possible arithmetic underflow/overflow", "possible division by zero", "decreases not satisfied",
    "possible bit shift underflow/overflow", "could not prove termination", "assertion failure",
    "unable to prove", "cannot show invariant", "loop invariant", "failed to prove", "may panic",
)


def repo_reader(root):
    def rd(rel):
        p = os.path.join(root, rel)
        if not os.path.exists(p):
            raise Undecided(f"lost anchor: file {rel} missing")
        return read(p)
    return rd


def scan_trusted(text):
    """mechanical scan for assumption-introducing constructs in the composed file"""
    out = []
    for n, l in enumerate(text.split("\n"), 1):
        s = l.strip()
        if s.startswith("//"):
            continue
        for kw in ("assume_specification", "external_body", "external_type_specification", "admit()", "assume(", "external_fn_specification", "#[verifier::external]", "uninterp spec fn", "axiom"):
            if kw in s:
                out.append(f"L{n}: {s[:140]}")
                break
    return out


def pull_helper(fname, meta, repo_root):
    """R39 (auto-pulled helper): a free function `fname` that the extracted code calls but the template does not know is taken
    verbatim from the source file of one of the template's items and made TRANSPARENT: `ensures r == <its own body read as a
    spec expression>`.  Only for simple signatures (no generics, no self, explicit return type); if Verus cannot read the body
    as a spec expression the run ends undecided (exit 2) as before.  Returns the text to append, or None."""
    for rel in dict.fromkeys(it["file"] for it in meta["items"]):
        try:
            src = read(os.path.join(repo_root, rel))
            a, b = extract.locate(src, "fn " + fname)
        except Exception:
            continue
        item = src[a:b]
        item = re.sub(r"^(\s*(///[^\n]*\n|#\[[^\]]*\]\s*\n))*", "", item)
        m = re.match(r"\s*(?:pub(?:\([^)]*\))?\s+)?fn\s+" + re.escape(fname) + r"\s*\(([^)]*)\)\s*->\s*([^{]+?)\s*\{", item, re.S)
        if not m or "self" in m.group(1) or "<" in item[:item.index("(")]:
            continue
        params, rty = m.group(1), m.group(2).strip()
        body = item[m.end() - 1:]
        return (f"\n// R39 auto-pulled helper, verbatim from {rel}; contract = its own body read as a spec expression\n"
                f"fn {fname}({params}) -> (r39_hr: {rty})\n    ensures r39_hr == ({{ let hs: {rty} = {body}; hs }}),\n{body}\n")
    return None


def pull_method(mname, meta, repo_root):
    """R39 for helper METHODS: `self.helper(..)` unknown to the template -> the method is taken verbatim from an `impl` block of the
    source file of one of the template's items, wrapped in that impl's own header, with the transparent contract `ensures r == body`.
    Only `&self` methods with an explicit return type; anything else returns None (the run stays undecided)."""
    for rel in dict.fromkeys(it["file"] for it in meta["items"]):
        try:
            src = read(os.path.join(repo_root, rel))
            a, b = extract.locate(src, "impl .* :: fn " + mname)
        except Exception:
            continue
        item = re.sub(r"^(\s*(///[^\n]*\n|#\[[^\]]*\]\s*\n))*", "", src[a:b])
        m = re.match(r"\s*(?:pub(?:\([^)]*\))?\s+)?fn\s+" + re.escape(mname) + r"\s*\((\s*&self[^)]*)\)\s*->\s*([^{]+?)\s*\{", item, re.S)
        if not m:
            continue
        k = src.rfind("\nimpl", 0, a)
        if k < 0:
            continue
        hdr = src[k + 1:src.index("{", k)].strip()
        if " for " in hdr:            # trait impls are verified as inherent methods elsewhere; keep it simple
            continue
        params, rty = m.group(1), m.group(2).strip()
        body = item[m.end() - 1:]
        return (f"\n// R39 auto-pulled helper method, verbatim from {rel}; contract = its own body read as a spec expression\n"
                f"{hdr} {{\nfn {mname}({params}) -> (r39_hr: {rty})\n    ensures r39_hr == ({{ let hs: {rty} = {body}; hs }}),\n{body}\n}}\n")
    return None


def run_template(prop, template_path, repo_root=None, rlimit=30, timeout=600, extra_args=(), _helpers=None):
    """-> result dict: ok, undecided(reason) , failures[...], functions[...], meta, cmd, secs, out_path"""
    repo_root = repo_root or REPO
    name = os.path.splitext(os.path.basename(template_path))[0].replace(".verus", "")
    text, meta = extract.compose(read(template_path), repo_root, repo_reader(repo_root))
    for hname, htext in (_helpers or {}).items():
        k = text.rindex("} // verus!")
        text = text[:k] + htext + text[k:]
        meta["rewrites"].append({"rule": "R39", "item": "fn " + hname, "from": "call of a free function unknown to the template", "to": "function appended verbatim, ensures r == body", "count": 1})
    out_dir = os.path.join(EVIDENCE, "extracted")
    os.makedirs(out_dir, exist_ok=True)
    out_path = os.path.join(out_dir, f"{prop}_{name}.rs")
    write(out_path, text)
    env = dict(os.environ)
    cmd = ["verus", out_path, "--output-json", "--time", "--multiple-errors", "20", "--error-format=json",
           "--rlimit", str(rlimit), "--num-threads", "8"] + list(extra_args)
    rc, out, secs, to = run(cmd, cwd=out_dir, timeout=timeout, env=env)
    res = {"template": name, "cmd": " ".join(cmd), "secs": secs, "out_path": out_path, "meta": meta,
           "trusted": scan_trusted(text), "raw": out, "failures": [], "functions": [], "undecided": None, "ok": False}
    log_path = os.path.join(LOGS, f"{prop}_{name}.verus.log")
    write(log_path, out)
    res["log"] = log_path
    if to:
        res["undecided"] = f"verus timed out after {timeout}s"
        return res
    # split stream: JSON diagnostics lines + one big JSON object
    diags = []
    big = None
    buf = []
    depth_obj = False
    for line in out.split("\n"):
        ls = line.strip()
        if ls.startswith('{"$message_type"'):
            try:
                diags.append(json.loads(ls))
            except Exception:
                pass
        elif ls == "{" and not depth_obj:
            depth_obj = True
            buf = [line]
        elif depth_obj:
            buf.append(line)
            if line.startswith("}"):
                depth_obj = False
                try:
                    big = json.loads("\n".join(buf))
                except Exception:
                    pass
    if big is None:
        res["undecided"] = "verus produced no result object (crash?): " + out[-400:]
        return res
    vr = big.get("verification-results", {})
    res["verified"] = vr.get("verified", 0)
    res["errors"] = vr.get("errors", 0)
    try:
        for mod in big["times-ms"]["smt"]["smt-run-module-times"]:
            for fb in mod.get("function-breakdown", []):
                res["functions"].append({"function": fb["function"], "mode": fb.get("mode:"), "ms": fb["time"], "success": fb["success"], "rlimit": fb.get("rlimit")})
    except Exception:
        pass
    res["smt_ms"] = big.get("times-ms", {}).get("smt", {}).get("total")
    res["verus_version"] = big.get("verus", {}).get("version")
    # items that gained an unannotated closure relative to the committed baseline (see engine/mk_closure_baseline.py)
    new_closures = {}
    try:
        base = json.load(open(os.path.join(VERIF, "engine", "closures_baseline.json")))
        key = os.path.relpath(os.path.normpath(template_path), os.path.join(VERIF, "contracts"))
        for it in meta["items"]:
            if it.get("is_fn"):
                known = list(base.get(key, {}).get(it["sel"], []))
                extra = []
                for c in it.get("unannotated_closures", []):
                    if c in known: known.remove(c)
                    else: extra.append(c)
                if extra: new_closures[it["sel"]] = extra
    except Exception:
        pass
    res["new_unannotated_closures"] = new_closures
    lost_ghost = {}
    for rw in meta.get("rewrites", []):
        if rw.get("rule") == "ghost-anchor-lost":
            lost_ghost.setdefault(rw["item"], []).append(rw["from"])
    res["lost_ghost_anchors"] = lost_ghost
    lines = text.split("\n")
    errors = [d for d in diags if d.get("level") == "error" and not d.get("message", "").startswith("aborting due to")]
    # R39: unknown free functions called by the extracted code -> pull them from the source file and run again (at most 3 rounds)
    missing = []
    for d in errors:
        mm = re.match(r"cannot find function `(\w+)` in this scope", d.get("message", ""))
        if mm and mm.group(1) not in (_helpers or {}) and mm.group(1) not in missing:
            missing.append(mm.group(1))
    missing_m = []
    for d in errors:
        mm = re.match(r"no method named `(\w+)` found for ", d.get("message", ""))
        if mm and mm.group(1) not in (_helpers or {}) and mm.group(1) not in missing_m:
            missing_m.append(mm.group(1))
    if (missing or missing_m) and len(_helpers or {}) < 3:
        hs = dict(_helpers or {})
        for fn_ in missing:
            t = pull_helper(fn_, meta, repo_root)
            if t: hs[fn_] = t
        for fn_ in missing_m:
            t = pull_method(fn_, meta, repo_root)
            if t: hs[fn_] = t
        if len(hs) > len(_helpers or {}):
            return run_template(prop, template_path, repo_root=repo_root, rlimit=rlimit, timeout=timeout, extra_args=extra_args, _helpers=hs)
    # failures of AUTO-GENERATED annotations (R43 closure `ensures r43_cr == (body)`, R39 helper `ensures r39_hr == body`) are not
    # contract failures: the exec body could not be equated with its spec reading (generic `==`, overflow, ..).  The closure /
    # helper is then as good as unannotated: every failure in the same item (R43) or in the whole template (R39) is undecided.
    auto_failed_items, auto_failed_all = set(), False
    for d in errors:
        prim = next((s_ for s_ in d.get("spans", []) if s_.get("is_primary")), None)
        txt = " ".join(t_["text"] for s_ in d.get("spans", []) for t_ in (s_.get("text") or []))
        if ("r43_cr ==" in txt or "r46_cr" in txt) and "closure" in d.get("message", ""):
            ln = prim["line_start"] if prim else 0
            it_ = next((it for it in meta["items"] if it["line_lo"] <= ln <= it["line_hi"]), None)
            if it_: auto_failed_items.add(it_["sel"])
            else: auto_failed_all = True
        if "r39_hr ==" in txt:
            auto_failed_all = True
    for d in errors:
        msg = d.get("message", "")
        prim = next((s for s in d.get("spans", []) if s.get("is_primary")), None)
        # macro-generated spans (assert!, ..): walk the expansion chain back to a span inside the composed file
        hops = 0
        while prim and os.path.basename(prim.get("file_name", "")) != os.path.basename(out_path) and prim.get("expansion") and hops < 8:
            prim = prim["expansion"].get("span")
            hops += 1
        line = prim["line_start"] if prim else 0
        snippet = ""
        if prim and prim.get("text"):
            t0 = prim["text"][0]
            snippet = t0["text"][t0["highlight_start"] - 1:t0["highlight_end"] - 1].strip()
        item = next((it for it in meta["items"] if it["line_lo"] <= line <= it["line_hi"]), None)
        # if the primary span is in a callee's spec (precondition), attribute to the caller via secondary span
        sec = [s for s in d.get("spans", []) if not s.get("is_primary")]
        where = item["sel"] if item else _enclosing_fn(lines, line)
        region = next((r for r in meta["regions"] if r["line_lo"] <= line <= r["line_hi"]), None)
        kind = _kind(msg)
        if kind == "precondition":
            # primary = call site; a secondary span inside this file names the failed `requires` clause
            for sp in sec:
                if os.path.basename(sp.get("file_name", "")) == os.path.basename(out_path) and sp.get("text"):
                    t0 = sp["text"][0]
                    snippet = snippet.split("(")[0][-40:] + " requires " + t0["text"][t0["highlight_start"] - 1:t0["highlight_end"] - 1].strip()
                    break
        ob = f"{prop}/{name}/{where}/{kind}:{_norm(snippet)}"
        f = {"obligation": ob, "message": msg, "line": line, "kind": kind, "snippet": snippet, "rendered": d.get("rendered", ""),
             "in_extracted_item": bool(item), "region": region["kind"] if region else None}
        if not any(p in msg.lower() for p in VERIFICATION_FAILURES) or d.get("code"):
            f["tool_limit"] = True   # not a proof obligation: syntax/type/unsupported-construct/rlimit => undecided
        elif item and item["sel"] in new_closures:
            # the function now contains a closure literal Verus has no contract for: the proof cannot see what it does, so this
            # failure is lack of information (it would also fail for a correct body) => undecided, never an alarm
            f["tool_limit"] = True
            f["demoted"] = True
            f["message"] = msg + f" [undecided: {item['sel']} gained closure(s) without a contract: {new_closures[item['sel']][:2]}]"
        if not f.get("tool_limit") and (auto_failed_all or (item and item["sel"] in auto_failed_items)):
            f["tool_limit"] = True
            f["demoted"] = True
            f["message"] = msg + " [undecided: an auto-generated annotation (R43 closure / R39 helper: body read as spec) could not be proved equal to its exec body, so the closure / helper is as good as unannotated]"
        if not f.get("tool_limit") and item and item["sel"] in lost_ghost:
            # the proof of this item lost ghost hints whose splice points no longer exist: a failure may be a missing hint
            f["tool_limit"] = True
            f["demoted"] = True
            f["message"] = msg + f" [undecided: lost anchor: ghost splice point(s) {lost_ghost[item['sel']][:3]} in {item['sel']} no longer exist]"
        res["failures"].append(f)
    if not errors and vr.get("success") and rc == 0:
        res["ok"] = True
    elif not errors:
        res["undecided"] = "verus failed without a diagnostic: " + out[-400:]
    elif all(f.get("tool_limit") for f in res["failures"]):
        res["undecided"] = "verus: " + "; ".join(f["message"] for f in res["failures"][:3])
    return res


def _kind(msg):
    m = msg.lower()
    if "postcondition" in m: return "ensures"
    if "precondition" in m: return "precondition"
    if "invariant" in m: return "invariant"
    if "assertion failed" in m: return "assert"
    if "overflow" in m or "underflow" in m: return "arith"
    if "decreases" in m or "termination" in m: return "decreases"
    if "recommend" in m: return "recommends"
    return re.sub(r"\W+", "-", m)[:40]


def _norm(s):
    return re.sub(r"\s+", " ", s)[:90]


def _enclosing_fn(lines, line):
    for i in range(min(line, len(lines)) - 1, -1, -1):
        m = re.search(r"\bfn\s+(\w+)", lines[i])
        if m:
            return "template:" + m.group(1)
    return "template"
